#!/bin/sh
# Run every kept seeded change against the quick check of its property (plus the
# related checks listed in tools/sweep_extra.txt) in a scratch worktree; print
# one line per seed. usage: sweep.sh [name-prefix]
export GOFLAGS=-mod=mod GOPROXY=off GOSUMDB=off GOTOOLCHAIN=local
cd /verif
for d in seeded/${1}*/; do
  name=$(basename $d)
  id=${name%%-*}
  extra=$(grep "^$name " tools/sweep_extra.txt 2>/dev/null | cut -d' ' -f2-)
  wt=$(mktemp -d /tmp/sweep.XXXXXX); rmdir $wt
  git -C /repo worktree add --detach $wt HEAD -q
  if ! git -C $wt apply /verif/$d/patch.diff 2>/dev/null; then
    echo "$name NOAPPLY"; git -C /repo worktree remove --force $wt; continue
  fi
  res=""
  caught=0
  for c in $id $extra; do
    VERIF_EVIDENCE_DIR=/tmp/seed-evidence VERIF_STICK_DIR=$wt ./check $c --tier quick >/tmp/sweep.out 2>&1; rc=$?
    res="$res $c=$rc"
    [ $rc -eq 1 ] && caught=1
    [ $caught -eq 1 ] && break
  done
  if [ $caught -eq 1 ]; then echo "$name caught$res"; else echo "$name MISSED$res"; fi
  git -C /repo worktree remove --force $wt
done
