#!/usr/bin/env python3
"""Regenerates /verif/MANIFEST.json from the table below (kept here so the
manifest stays valid and consistent while checks are added)."""
import json, os, sys
ROOT = os.path.dirname(os.path.dirname(os.path.abspath(__file__)))
props = [json.loads(l) for l in open(os.path.join(ROOT, "properties.jsonl"))]
ids = [p["id"] for p in props]

# id -> (category, text, note, technique, design_ref)
CLAIMS = json.load(open(os.path.join(ROOT, "tools", "claims.json")))

checks = []
na = []
for i in ids:
    c = CLAIMS.get(i)
    if not c or c.get("not_applicable"):
        na.append({"property_id": i, "reason": (c or {}).get("not_applicable", "check not built yet (work in progress)")})
        continue
    checks.append({
        "property_id": i,
        "quick_cmd": "./check %s --tier quick" % i,
        "thorough_cmd": "./check %s --tier thorough" % i,
        "evidence_file": "/verif/evidence/%s.json" % i,
        "replay_cmd_template": "./check %s --replay {path}" % i,
        "engine": "vcheck",
        "level_claimed": {"category": c["category"], "text": c["text"], "design_ref": c.get("design_ref", "DESIGN.md section 5 (%s)" % i)},
        "level_note": c["note"],
        "technique": c["technique"],
    })
m = {
    "version": 1,
    "setup_cmd": "mkdir -p /verif/work && cd /verif/harness && GOFLAGS=-mod=mod GOPROXY=off GOSUMDB=off GOTOOLCHAIN=local go build -tags verif -o /verif/work/vcheck.setup ./cmd/vcheck && go build -race -tags verif -o /verif/work/vcheck.setup.race ./cmd/vcheck && rm -f /verif/work/vcheck.setup /verif/work/vcheck.setup.race",
    "hooks": {
        "guard": "verif",
        "enable": "go build -tags verif (no guarded source exists in /repo; the tag is passed for uniformity)",
        "baseline_off_cmd": "cd /repo && go test -vet=off -count=1 ./...",
        "source_commits": [],
        "add_only": True,
    },
    "engines": [{
        "name": "vcheck",
        "path": "/verif/harness",
        "serves_properties": [c["property_id"] for c in checks],
        "kind_free_text": "Go driver: rapid v1.3.0 generators + bounded enumerations, oracles in the parent, stick executed in a sandboxed worker subprocess (watchdog, rlimit), sharded over the cores",
    }],
    "checks": checks,
    "not_applicable": na,
    "notes": "All checks are ./check <ID> --tier quick|thorough; they rebuild the driver against /repo's working tree. Known findings: /verif/KNOWN_FINDINGS.txt. Seeded mutants: /verif/seeded/.",
}
json.dump(m, open(os.path.join(ROOT, "MANIFEST.json"), "w"), indent=1)
print("checks:", len(checks), "not_applicable:", len(na))
