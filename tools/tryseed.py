#!/usr/bin/env python3
"""Validate a seeded defect and run checks against it.

usage: tryseed.py <seed_dir> <ID> [more IDs...]
  seed_dir contains patch.diff and a demonstration (demo_test.go or demo/main.go).
Steps: (1) in a scratch worktree: suite passes with the patch, demo fails with
it and passes without; (2) apply to /repo, run ./check <ID> --tier quick for the
given ids, revert. Prints one summary line per step.
"""
import os, re, shutil, subprocess, sys, tempfile, glob

ENV = dict(os.environ, GOFLAGS="-mod=mod", GOPROXY="off", GOSUMDB="off", GOTOOLCHAIN="local")

def run(cmd, cwd, timeout=600):
    p = subprocess.run(cmd, cwd=cwd, env=ENV, shell=True, stdout=subprocess.PIPE, stderr=subprocess.STDOUT, timeout=timeout)
    return p.returncode, p.stdout.decode(errors="replace")

def pkgdir(src):
    m = re.search(r"^package\s+(\w+)", src, re.M)
    name = m.group(1) if m else "stick_test"
    return {"stick": ".", "stick_test": ".", "parse": "parse", "parse_test": "parse", "twig": "twig", "twig_test": "twig",
            "escape": "twig/escape", "escape_test": "twig/escape", "filter": "twig/filter", "filter_test": "twig/filter", "main": None}.get(name, ".")

def demo_cmd(seed, wt):
    tests = glob.glob(os.path.join(seed, "*_test.go"))
    if tests:
        cmds = []
        for t in tests:
            src = open(t).read()
            d = pkgdir(src)
            dst = os.path.join(wt, d, "zz_seed_" + os.path.basename(t))
            shutil.copy(t, dst)
            names = re.findall(r"^func (Test\w+|Example\w+)\(", src, re.M)
            meta = os.path.join(seed, "meta.md")
            race = "-race " if os.path.exists(meta) and "go test -race" in open(meta).read() else ""
            cmds.append("go test %s-vet=off -count=1 -run '^(%s)$' ./%s" % (race, "|".join(names), d))
        return " && ".join(cmds)
    mains = glob.glob(os.path.join(seed, "demo", "*.go")) + glob.glob(os.path.join(seed, "*.go"))
    if mains:
        os.makedirs(os.path.join(wt, "zz_seed_demo"), exist_ok=True)
        for mfile in mains:
            shutil.copy(mfile, os.path.join(wt, "zz_seed_demo", os.path.basename(mfile)))
        return "go run ./zz_seed_demo"
    return None

def main():
    keep = None
    args = sys.argv[1:]
    if args[0] == "--keep":
        keep = args[1]; args = args[2:]
    seed = os.path.abspath(args[0]); ids = args[1:]
    results = {}
    patch = os.path.join(seed, "patch.diff")
    wt = tempfile.mkdtemp(prefix="val-", dir="/tmp")
    os.rmdir(wt)
    if os.environ.get("SKIPVAL"):
        results["validation"] = {"skipped": True}
    rc, out = run("git -C /repo worktree add --detach %s HEAD -q" % wt, "/")
    try:
      if not os.environ.get("SKIPVAL"):
          rc, out = run("git apply --check %s" % patch, wt)
          if rc != 0:
              print("PATCH-DOES-NOT-APPLY", out[-300:]); return 3
          run("git apply %s" % patch, wt)
          rc, out = run("go build ./... && go test -vet=off -count=1 ./...", wt)
          print("suite-with-patch:", "PASS" if rc == 0 else "FAIL\n" + out[-800:])
          suite_ok = rc == 0
          cmd = demo_cmd(seed, wt)
          rc1, out1 = run(cmd, wt, timeout=180) if cmd else (0, "no demo")
          print("demo-with-patch:", "fails (good)" if rc1 != 0 else "PASSES (bad)")
          run("git apply -R %s" % patch, wt)
          rc2, out2 = run(cmd, wt, timeout=180) if cmd else (1, "no demo")
          print("demo-without-patch:", "passes (good)" if rc2 == 0 else "FAILS (bad)\n" + out2[-600:])
          valid = suite_ok and rc1 != 0 and rc2 == 0
          print("seed-valid:", valid)
          results["validation"] = {"suite_with_patch": "pass" if suite_ok else "fail", "demo_with_patch": "fails" if rc1 != 0 else "passes",
                                   "demo_without_patch": "passes" if rc2 == 0 else "fails", "demo_cmd": cmd}
    finally:
        run("git -C /repo worktree remove --force %s" % wt, "/")
    if not ids:
        return 0
    if os.environ.get("SEED_IN_WORKTREE"):
        # run the checks against a scratch worktree of /repo with the patch
        # applied (same effect as applying to /repo; usable while other runs use /repo)
        swt = tempfile.mkdtemp(prefix="seedwt-", dir="/tmp"); os.rmdir(swt)
        run("git -C /repo worktree add --detach %s HEAD -q" % swt, "/")
        run("git apply %s" % patch, swt)
        ENV["VERIF_STICK_DIR"] = swt
        ENV["VERIF_EVIDENCE_DIR"] = "/tmp/seed-evidence"
    else:
        swt = None
        rc, out = run("git -C /repo status --porcelain", "/")
        if out.strip():
            print("/repo is dirty, refusing"); return 4
        run("git -C /repo apply %s" % patch, "/")
    try:
        for i in ids:
            try:
                rc, out = run("./check %s --tier quick" % i, "/verif", timeout=900)
            except subprocess.TimeoutExpired:
                rc, out = 99, "timeout"
            v = [l for l in out.splitlines() if l.startswith("VIOLATION") or l.startswith("violation:")]
            print("check %s: exit=%d %s" % (i, rc, "; ".join(v)[:400]))
            results.setdefault("checks", {})[i] = {"exit": rc, "signatures": [l.split("signature=")[1] for l in v if "signature=" in l][:5]}
    finally:
        if swt:
            run("git -C /repo worktree remove --force %s" % swt, "/")
            ENV.pop("VERIF_STICK_DIR", None)
        else:
            run("git -C /repo checkout -- .", "/")
            rc, out = run("git -C /repo status --porcelain", "/")
            if out.strip():
                print("WARNING /repo not clean:", out)
    if keep and results.get("validation", {}).get("suite_with_patch") == "pass" and results["validation"]["demo_with_patch"] == "fails" and results["validation"]["demo_without_patch"] == "passes":
        import json
        dst = os.path.join("/verif/seeded", keep)
        os.makedirs(dst, exist_ok=True)
        for f in os.listdir(seed):
            src = os.path.join(seed, f)
            if os.path.isfile(src) and f != "go.mod":
                shutil.copy(src, os.path.join(dst, f if not f.endswith("_test.go") else f.replace("_test.go", "_test.go.txt")))
            elif os.path.isdir(src):
                for g in os.listdir(src):
                    shutil.copy(os.path.join(src, g), os.path.join(dst, "demo_" + g + ".txt"))
        meta = {"property": keep.split("-")[0], "source": "independent sub-agent given only the property text and a scratch worktree",
                "needs": open(os.path.join(seed, "meta.md")).read()[:1500] if os.path.exists(os.path.join(seed, "meta.md")) else "",
                "ran": results}
        json.dump(meta, open(os.path.join(dst, "meta.json"), "w"), indent=1)
        print("kept as", dst)
    return 0

sys.exit(main())
