#!/bin/sh
# Re-validate and re-run a kept seeded change: reseed.sh <name> [check ids...]
# (default check id = the property in the name). Runs in worktree mode: /repo
# itself is not touched.
export GOFLAGS=-mod=mod GOPROXY=off GOSUMDB=off GOTOOLCHAIN=local
name=$1; shift
ids="$*"; [ -z "$ids" ] && ids=${name%%-*}
tmp=$(mktemp -d /tmp/reseed.XXXXXX)
for f in /verif/seeded/$name/*; do
  b=$(basename $f)
  case $b in
    *_test.go.txt) cp $f $tmp/${b%.txt} ;;
    demo_*.go.txt) mkdir -p $tmp/demo; n=${b#demo_}; cp $f $tmp/demo/${n%.txt} ;;
    meta.json) ;;
    *) cp $f $tmp/$b ;;
  esac
done
cd /verif && SEED_IN_WORKTREE=1 python3 tools/tryseed.py --keep $name $tmp $ids 2>&1 | grep -v "^  case" | cut -c1-400
rm -rf $tmp
