// Package props holds the framework shared by all property checks and one file
// per property (cNN.go).
package props

import (
	"crypto/sha1"
	"encoding/json"
	"flag"
	"fmt"
	"os"
	"path/filepath"
	"runtime"
	"sort"
	"strings"
	"sync"
	"time"

	"pgregory.net/rapid"

	"verif/internal/ev"
	"verif/internal/findings"
	"verif/internal/sb"
)

// Root is the /verif directory.
var Root = "/verif"

// Fail describes why a case violates the property.
type Fail struct {
	Sig      string // narrow signature (used to match known findings)
	Expected string
	Observed string
}

func (f *Fail) String() string {
	return fmt.Sprintf("sig=%s expected=%q observed=%q", f.Sig, clip(f.Expected, 300), clip(f.Observed, 300))
}

func clip(s string, n int) string {
	if len(s) > n {
		return s[:n] + "…"
	}
	return s
}

// Ctx is the per-shard run context.
type Ctx struct {
	Prop  *Property
	Tier  string
	Seed  uint64
	Shard int
	N     int
	SB    *sb.Sandbox
	Ev    *ev.Collector
	Known *findings.Set

	subFailed map[string]bool
	deadline  time.Time
	// Memo caches observations that only depend on the key (e.g. the
	// fault-free run of a program) within one shard run.
	Memo map[interface{}]interface{}
}

// Quick reports whether this is the quick tier.
func (c *Ctx) Quick() bool { return c.Tier != "thorough" }

// Pick returns q for the quick tier, t for the thorough tier.
func (c *Ctx) Pick(q, t int) int {
	if c.Quick() {
		return q
	}
	return t
}

// Mine reports whether index i of an enumeration belongs to this shard.
func (c *Ctx) Mine(i int) bool { return c.N <= 1 || i%c.N == c.Shard }

// Share returns this shard's share of a total case count.
func (c *Ctx) Share(total int) int {
	if c.N <= 1 {
		return total
	}
	n := total / c.N
	if c.Shard < total%c.N {
		n++
	}
	if n < 1 {
		n = 1
	}
	return n
}

// Expired reports whether the shard's time budget is used up (the run is then
// marked incomplete, never a violation).
func (c *Ctx) Expired() bool {
	if !c.deadline.IsZero() && time.Now().After(c.deadline) {
		c.Ev.S.Incomplete = true
		return true
	}
	return false
}

// replayer is the untyped view of a sub-check.
type replayer interface {
	name() string
	replay(c *Ctx, raw json.RawMessage) (*Fail, error)
}

// Property describes one property check.
type Property struct {
	ID          string
	Level       string
	Rule        string
	Technique   string
	Assumptions []string
	MaxShards   int
	UseRace     bool
	Run         func(c *Ctx)
	subs        map[string]replayer
}

var registry = map[string]*Property{}

// Register adds a property.
func Register(p *Property) {
	if p.subs == nil {
		p.subs = map[string]replayer{}
	}
	registry[p.ID] = p
}

// Get returns a registered property.
func Get(id string) *Property { return registry[id] }

// IDs lists registered properties.
func IDs() []string {
	var out []string
	for k := range registry {
		out = append(out, k)
	}
	sort.Strings(out)
	return out
}

// Sub is a typed sub-check: a deterministic function from a serialisable case
// to pass / fail. Random search, enumeration, regression replay and --replay
// all go through Eval.
type Sub[C any] struct {
	Prop *Property
	Name string
	Eval func(c *Ctx, cs *C) *Fail
}

// NewSub registers a sub-check with its property.
func NewSub[C any](p *Property, name string, eval func(c *Ctx, cs *C) *Fail) *Sub[C] {
	s := &Sub[C]{Prop: p, Name: name, Eval: eval}
	if p.subs == nil {
		p.subs = map[string]replayer{}
	}
	p.subs[name] = s
	return s
}

func (s *Sub[C]) name() string { return s.Name }

func (s *Sub[C]) replay(c *Ctx, raw json.RawMessage) (*Fail, error) {
	var cs C
	if err := json.Unmarshal(raw, &cs); err != nil {
		return nil, err
	}
	return s.Eval(c, &cs), nil
}

// Failed reports whether this sub-check already produced a violation.
func (s *Sub[C]) Failed(c *Ctx) bool { return c.subFailed[s.Name] }

// classify evaluates one case and applies the known-findings policy. It
// returns the failure if it is a new violation, nil otherwise.
func (s *Sub[C]) classify(c *Ctx, cs *C) *Fail {
	f := s.Eval(c, cs)
	if f == nil {
		return nil
	}
	if f.Sig == "infra" {
		c.Ev.S.Infra = append(c.Ev.S.Infra, clip(f.Observed, 500))
		return nil
	}
	if k := c.Known.Match(s.Prop.ID, f.Sig); k != nil {
		c.Ev.S.Known[k.ID]++
		return nil
	}
	return f
}

// Check evaluates one enumerated case. It returns false once a violation has
// been recorded for this sub-check (the caller should stop enumerating).
func (s *Sub[C]) Check(c *Ctx, cs *C) bool {
	if c.subFailed[s.Name] {
		return false
	}
	f := s.classify(c, cs)
	if f == nil {
		return true
	}
	s.record(c, cs, f)
	return false
}

func (s *Sub[C]) record(c *Ctx, cs *C, f *Fail) {
	raw, _ := json.Marshal(cs)
	c.subFailed[s.Name] = true
	c.Ev.S.Violations = append(c.Ev.S.Violations, ev.Violation{
		Property: s.Prop.ID, Sub: s.Name, Sig: f.Sig, Expected: clip(f.Expected, 4000), Observed: clip(f.Observed, 4000), Case: raw,
	})
}

// Rapid searches with rapid: gen draws a case, Eval decides. On failure rapid
// shrinks; the last failing case seen is the minimal one and is recorded.
func (s *Sub[C]) Rapid(c *Ctx, checks int, gen func(t *rapid.T) *C) {
	if c.subFailed[s.Name] || checks <= 0 {
		return
	}
	var lastCase *C
	var lastFail *Fail
	prop := func(t *rapid.T) {
		cs := gen(t)
		if f := s.classify(c, cs); f != nil {
			lastCase, lastFail = cs, f
			t.Fatalf("%s", f.String())
		}
	}
	seed := Mix(c.Seed, uint64(c.Shard)+1, hashStr(s.Prop.ID+"/"+s.Name))
	failed, logs := runRapid(s.Prop.ID+"_"+s.Name, checks, seed, prop)
	if failed {
		if lastCase != nil {
			s.record(c, lastCase, lastFail)
		} else {
			// rapid itself failed (generator problem): infrastructure, not a violation.
			c.Ev.S.Infra = append(c.Ev.S.Infra, "rapid: "+clip(strings.Join(logs, "\n"), 2000))
		}
	}
}

// RunRegress replays the committed witnesses of this property.
func runRegress(c *Ctx) {
	dir := filepath.Join(Root, "regress", c.Prop.ID)
	files, _ := filepath.Glob(filepath.Join(dir, "*.json"))
	sort.Strings(files)
	knownWitness := map[string]*findings.Known{}
	for _, k := range c.Known.For(c.Prop.ID) {
		k := k
		knownWitness[filepath.Join(Root, k.Witness)] = &k
	}
	for _, f := range files {
		b, err := os.ReadFile(f)
		if err != nil {
			continue
		}
		var v ev.Violation
		if err := json.Unmarshal(b, &v); err != nil {
			c.Ev.S.Infra = append(c.Ev.S.Infra, "regress "+f+": "+err.Error())
			continue
		}
		sub, ok := c.Prop.subs[v.Sub]
		if !ok {
			c.Ev.S.Infra = append(c.Ev.S.Infra, "regress "+f+": unknown sub "+v.Sub)
			continue
		}
		fail, err := sub.replay(c, v.Case)
		c.Ev.S.Regress++
		if err != nil {
			c.Ev.S.Infra = append(c.Ev.S.Infra, "regress "+f+": "+err.Error())
			continue
		}
		kw := knownWitness[f]
		if fail == nil {
			if kw != nil {
				c.Ev.S.Notes = append(c.Ev.S.Notes, fmt.Sprintf("known finding %s: witness no longer fails", kw.ID))
			}
			continue
		}
		if k := c.Known.Match(c.Prop.ID, fail.Sig); k != nil {
			c.Ev.S.Known[k.ID]++
			c.Ev.S.KnownLines = append(c.Ev.S.KnownLines, fmt.Sprintf("KNOWN-FINDING: property=%s %s [%s]", c.Prop.ID, k.What, k.ID))
			continue
		}
		if fail.Sig == "infra" {
			c.Ev.S.Infra = append(c.Ev.S.Infra, clip(fail.Observed, 500))
			continue
		}
		// A fixed defect has returned (or a witness fails for a new reason).
		c.subFailed[v.Sub] = true
		c.Ev.S.Violations = append(c.Ev.S.Violations, ev.Violation{
			Property: c.Prop.ID, Sub: v.Sub, Sig: fail.Sig, Expected: clip(fail.Expected, 4000),
			Observed: clip(fail.Observed, 4000), Case: v.Case, Replay: f,
		})
	}
}

// RunShard executes one shard of a property run and returns its report.
func RunShard(p *Property, tier string, seed uint64, shard, n int, known *findings.Set, budget time.Duration) *ev.Shard {
	c := &Ctx{Prop: p, Tier: tier, Seed: seed, Shard: shard, N: n, SB: newSandbox(p), Ev: ev.NewCollector(), Known: known,
		subFailed: map[string]bool{}, Memo: map[interface{}]interface{}{}}
	if budget > 0 {
		c.deadline = time.Now().Add(budget)
	}
	defer c.SB.Close()
	if shard == 0 {
		runRegress(c)
	}
	p.Run(c)
	c.Ev.S.Flakes = c.SB.Flakes
	c.Ev.S.Spawns = c.SB.Spawns
	return &c.Ev.S
}

// Replay re-executes the case in a replay file. It returns the failure (nil if
// the case passes now).
func Replay(p *Property, path string, known *findings.Set) (*Fail, error) {
	b, err := os.ReadFile(path)
	if err != nil {
		return nil, err
	}
	var v ev.Violation
	if err := json.Unmarshal(b, &v); err != nil {
		return nil, err
	}
	sub, ok := p.subs[v.Sub]
	if !ok {
		return nil, fmt.Errorf("unknown sub-check %q", v.Sub)
	}
	c := &Ctx{Prop: p, Tier: "quick", Seed: 1, N: 1, SB: newSandbox(p), Ev: ev.NewCollector(), Known: known, subFailed: map[string]bool{}, Memo: map[interface{}]interface{}{}}
	defer c.SB.Close()
	return sub.replay(c, v.Case)
}

// WriteReplay stores a violation as a replay file and returns its path.
func WriteReplay(v *ev.Violation) string {
	dir := filepath.Join(Root, "replays")
	os.MkdirAll(dir, 0o755)
	h := sha1.Sum(append([]byte(v.Sub+"\x00"), v.Case...))
	path := filepath.Join(dir, fmt.Sprintf("%s-%x.json", v.Property, h[:6]))
	b, _ := json.MarshalIndent(v, "", " ")
	os.WriteFile(path, append(b, '\n'), 0o644)
	return path
}

// ---- rapid glue ------------------------------------------------------------

type rtb struct {
	mu     sync.Mutex
	nm     string
	failed bool
	logs   []string
}

func (t *rtb) Helper()      {}
func (t *rtb) Name() string { return t.nm }
func (t *rtb) log(s string) {
	t.mu.Lock()
	if len(t.logs) < 200 {
		t.logs = append(t.logs, s)
	}
	t.mu.Unlock()
}
func (t *rtb) Logf(f string, a ...any)   { t.log(fmt.Sprintf(f, a...)) }
func (t *rtb) Log(a ...any)              { t.log(fmt.Sprint(a...)) }
func (t *rtb) Skipf(f string, a ...any)  { t.log(fmt.Sprintf(f, a...)); runtime.Goexit() }
func (t *rtb) Skip(a ...any)             { t.log(fmt.Sprint(a...)); runtime.Goexit() }
func (t *rtb) SkipNow()                  { runtime.Goexit() }
func (t *rtb) Errorf(f string, a ...any) { t.log(fmt.Sprintf(f, a...)); t.Fail() }
func (t *rtb) Error(a ...any)            { t.log(fmt.Sprint(a...)); t.Fail() }
func (t *rtb) Fatalf(f string, a ...any) { t.log(fmt.Sprintf(f, a...)); t.FailNow() }
func (t *rtb) Fatal(a ...any)            { t.log(fmt.Sprint(a...)); t.FailNow() }
func (t *rtb) FailNow()                  { t.Fail(); runtime.Goexit() }
func (t *rtb) Fail()                     { t.mu.Lock(); t.failed = true; t.mu.Unlock() }
func (t *rtb) Failed() bool              { t.mu.Lock(); defer t.mu.Unlock(); return t.failed }

var rapidMu sync.Mutex

// runRapid runs rapid.Check with an explicit case count and seed.
func runRapid(name string, checks int, seed uint64, prop func(*rapid.T)) (failed bool, logs []string) {
	rapidMu.Lock()
	defer rapidMu.Unlock()
	if seed == 0 {
		seed = 0x9e3779b97f4a7c15
	}
	flag.Set("rapid.checks", fmt.Sprint(checks))
	flag.Set("rapid.seed", fmt.Sprint(seed))
	flag.Set("rapid.nofailfile", "true")
	flag.Set("rapid.shrinktime", "20s")
	t := &rtb{nm: name}
	done := make(chan struct{})
	go func() {
		defer close(done)
		rapid.Check(t, prop)
	}()
	<-done
	return t.Failed(), t.logs
}

// Mix is a splitmix64-style hash of several words.
func Mix(xs ...uint64) uint64 {
	h := uint64(0x243f6a8885a308d3)
	for _, x := range xs {
		h ^= x + 0x9e3779b97f4a7c15 + (h << 6) + (h >> 2)
		h ^= h >> 30
		h *= 0xbf58476d1ce4e5b9
		h ^= h >> 27
		h *= 0x94d049bb133111eb
		h ^= h >> 31
	}
	if h == 0 {
		h = 1
	}
	return h
}

func hashStr(s string) uint64 {
	h := uint64(14695981039346656037)
	for i := 0; i < len(s); i++ {
		h ^= uint64(s[i])
		h *= 1099511628211
	}
	return h
}

// fatalFail builds the failure for a process-level observation.
func fatalFail(r *sb.Resp) *Fail {
	if r.Status == "infra" {
		return &Fail{Sig: "infra", Observed: r.Err + r.PanicMsg}
	}
	msg := r.PanicMsg
	// Normalise numbers in runtime messages so the signature names the class.
	sig := r.Status + ":" + r.Site + ":" + normMsg(msg)
	return &Fail{Sig: sig, Expected: "ok or error", Observed: r.Status + ": " + msg + "\n" + clip(r.Stack, 3000)}
}

func normMsg(m string) string {
	m = strings.TrimPrefix(m, "panic: ")
	m = strings.TrimPrefix(m, "runtime error: ")
	var b strings.Builder
	for _, r := range m {
		switch {
		case r >= '0' && r <= '9':
			if !strings.HasSuffix(b.String(), "N") {
				b.WriteByte('N')
			}
		case r == ' ' || r == '\t':
			b.WriteByte('_')
		default:
			b.WriteRune(r)
		}
	}
	s := b.String()
	if len(s) > 60 {
		s = s[:60]
	}
	return s
}

// newSandbox returns the sandbox for a property: C18 uses the worker binary
// built with the race detector (VERIF_RACE_BIN, set by ./check).
func newSandbox(p *Property) *sb.Sandbox {
	s := sb.New()
	if p.UseRace {
		if rb := os.Getenv("VERIF_RACE_BIN"); rb != "" {
			s.Bin = rb
			s.Env = append(s.Env, "GORACE=halt_on_error=1 exitcode=66")
		}
	}
	return s
}
