package props

import (
	"encoding/json"
	"fmt"
	"strings"

	"pgregory.net/rapid"

	"verif/internal/gen"
	m "verif/internal/model"
	"verif/internal/sb"
)

// C02: execution is total.

type c02Case struct {
	P *m.Program `json:"p"`
}

type c02Filter struct {
	Filter string `json:"filter"`
	Val    sb.V   `json:"val"`
	Args   []sb.V `json:"args,omitempty"`
}

type c02Op struct {
	Op   string `json:"op"`
	L, R sb.V
}

func c02Values() []sb.V {
	num := func(f float64) sb.V { return sb.V{K: "num", N: f} }
	str := func(s string) sb.V { return sb.V{K: "str", S: s} }
	person := sb.V{K: "person", S: "Bob", N: 30}
	return []sb.V{
		{K: "null"}, {K: "bool", B: true}, {K: "bool"}, num(0), num(1), num(-1), num(2.5), num(-0.5), num(1e300), {K: "fbits", S: "7ff8000000000001"}, {K: "fbits", S: "7ff0000000000000"},
		{K: "int", N: 7}, {K: "uint8", N: 200}, {K: "int64", N: -3},
		str(""), str("a"), str("abc def"), str("12"), str("é日本"), str("now"), str("\xff"),
		{K: "arr"}, {K: "arr", E: []sb.V{num(1), str("a"), {K: "null"}}}, {K: "slice:int", E: []sb.V{num(3), num(1), num(2)}}, {K: "slice:str", E: []sb.V{str("b"), str("a")}},
		{K: "array:int", E: []sb.V{num(1)}}, {K: "nilslice:int"},
		longArr(12), longArr(21), {K: "arr", E: []sb.V{{K: "arr", E: []sb.V{num(1)}}, {K: "arr", E: []sb.V{num(2)}}}},
		{K: "slice:any", E: []sb.V{{K: "hash", KS: []string{"a"}, E: []sb.V{num(1)}}, {K: "arr", E: []sb.V{num(2)}}}},
		{K: "hash"}, {K: "hash", KS: []string{"a", "b"}, E: []sb.V{num(1), str("x")}}, {K: "map:int:str", KV: []sb.V{{K: "int", N: 1}}, E: []sb.V{str("one")}}, {K: "nilmap:str"},
		person, {K: "ptr", E: []sb.V{person}}, {K: "nilptr:person"}, {K: "ptr", E: []sb.V{{K: "slice:int", E: []sb.V{num(1), num(2)}}}},
		{K: "stringer", S: "strg"}, {K: "decimal", S: "1.50"}, {K: "safe", TS: []string{"html"}, E: []sb.V{str("<b>")}}, {K: "time"}, {K: "chan"}, {K: "func"},
		// data that refers back to itself, a nil embedded pointer, a NaN key, a nil hash
		{K: "cyclicmap"}, {K: "cyclicnode"}, {K: "embednil", S: "Home"}, {K: "map:float64:str", KV: []sb.V{{K: "nan"}}, E: []sb.V{str("nan")}}, {K: "nilmap:value"},
		// a list marked as safe, lists sharing their sub-lists 40 levels deep, a nil pointer to a SafeValue implementation
		{K: "safe", TS: []string{"html"}, E: []sb.V{{K: "arr", E: []sb.V{num(1), num(2)}}}}, {K: "safe", TS: []string{"js"}, E: []sb.V{{K: "hash", KS: []string{"a"}, E: []sb.V{num(1)}}}},
		{K: "dag"}, {K: "nilptr:customsafe"}, {K: "nilptr:promoted-stringer"}, {K: "nilptr:promoted-number"}, {K: "nilptr:promoted-boolean"},
		{K: "embednil:stringer"}, {K: "embednil:iface"}, {K: "embednil:safe"}, {K: "ptr", E: []sb.V{{K: "embednil:number"}}}, {K: "embednil:time"},
		{K: "dagarr"}, {K: "cyclicarr"}, {K: "embednil:deep"},
	}
}

func c02ArgLists() [][]sb.V {
	num := func(f float64) sb.V { return sb.V{K: "num", N: f} }
	str := func(s string) sb.V { return sb.V{K: "str", S: s} }
	return [][]sb.V{
		{}, {num(0)}, {num(1)}, {num(-1)}, {num(2)}, {num(2.5)}, {num(1e18)}, {str("x")}, {str("")}, {{K: "null"}}, {{K: "bool", B: true}},
		{{K: "arr", E: []sb.V{num(1)}}}, {{K: "hash", KS: []string{"a"}, E: []sb.V{str("b")}}}, {{K: "arr"}},
		{num(2), str("x")}, {num(3.5)}, {num(2.5), str("fill")}, {num(0), num(0)}, {str("a"), str("b")}, {num(-3), {K: "null"}}, {num(2), {K: "null"}}, {str("Y-m-d"), str("UTC")},
		{num(3), str("No"), num(1)}, {num(1), num(2), num(3)}, {{K: "null"}, {K: "null"}, {K: "null"}},
		// hostile strings (format / separator / pattern arguments)
		{str("\\")}, {str("Y-m-d\\")}, {str("\\Y\\")}, {str("%s %d %")}, {str("é\xff")}, {str("dDjlNSwzWFmMntLoYyaABgGhHisueIOPTZcrU")}, {str("\\"), str("\\")},
	}
}

func init() {
	p := &Property{
		ID:        "C02",
		Level:     "exploration",
		Technique: "property-based testing (rapid) with an ill-typed ('wild') program generator + complete filter x value x argument-list and operator x operand-kind grids; totality oracle in a sandboxed worker",
		Rule: "wild programs: the full grammar (every tag and operator, nesting, inheritance up to 4 levels with parent() at every level, use, include, embed, macros in all call forms) with operands of any kind given to any operator, filter, test, attribute access, method call and tag, over a context of ordinary Go values (all numeric kinds, nil, typed nil pointers, slices, maps with string/int keys, structs with unexported fields and methods, pointers); run on stick.New and twig.New. " +
			"Grids: every Twig built-in filter (31) x 47 value kinds x 30 argument lists (incl. hostile format strings); every binary operator x 48 x 48 operand kinds (thorough: all; quick: seeded sample plus every pair of safe-wrapped lists, lists sharing sub-lists and nil SafeValue pointers). Excluded as the statement allows: recursion, ranges with computed endpoints (literal endpoints in [-50,50]), panicking callbacks. " +
			"Oracle: the observation is ok or error within the deadline; panic, crash, confirmed hang or memory blow-up is a violation. Non-trivial: the template parsed and executed (a parse error does not count); distinct by case.",
		Assumptions: []string{"hang = no answer within 2 s, confirmed twice at 10 s", "the value menagerie is a fixed, documented list (worker/values.go)"},
	}
	prog := NewSub(p, "prog", func(c *Ctx, cs *c02Case) *Fail {
		req := execReq(cs.P)
		req.Ctx = gen.WildCtx()
		r := c.SB.Do(req)
		parsed := r.Status == "ok" || (r.Status == "error" && !strings.HasPrefix(r.Err, "parse"))
		c.Ev.Count(progKey(cs.P), parsed, "status:"+r.Status, "prog-status:"+r.Status+":"+errClass(r.Err), "env:"+cs.P.Env, fmt.Sprintf("templates:%d", len(cs.P.Tpls)))
		if parsed {
			c.Ev.Sample(map[string]interface{}{"templates": cs.P.Sources(), "env": cs.P.Env, "status": r.Status, "err": clip(r.Err, 120)})
		}
		if r.Fatal() || r.Status == "infra" {
			return fatalFail(r)
		}
		return nil
	})
	flt := NewSub(p, "filter", func(c *Ctx, cs *c02Filter) *Fail {
		ctx := map[string]sb.V{"v": cs.Val}
		src := "{{ v|" + cs.Filter
		if len(cs.Args) > 0 {
			src += "("
			for i, a := range cs.Args {
				name := fmt.Sprintf("a%d", i)
				ctx[name] = a
				if i > 0 {
					src += ", "
				}
				src += name
			}
			src += ")"
		}
		src += " }}"
		r := c.SB.Do(&sb.Req{Op: "exec", Env: "twig", Loader: "string", Entry: src, Ctx: ctx})
		key, _ := jsonStr(cs)
		c.Ev.Count(key, r.Status == "ok" || r.Status == "error", "filter:"+cs.Filter, "status:"+r.Status)
		if r.Fatal() || r.Status == "infra" {
			return fatalFail(r)
		}
		return nil
	})
	ops := []string{"or", "and", "b-or", "b-xor", "b-and", "==", "!=", "<", "<=", ">", ">=", "not in", "in", "matches",
		"starts with", "ends with", "..", "+", "-", "~", "*", "/", "//", "%", "**"}
	opSub := NewSub(p, "operator", func(c *Ctx, cs *c02Op) *Fail {
		r := c.SB.Do(&sb.Req{Op: "exec", Env: "core", Loader: "string", Entry: "{{ (l " + cs.Op + " r) ? 1 : 0 }}{% for x in l " + cs.Op + " r %}.{% endfor %}", Ctx: map[string]sb.V{"l": cs.L, "r": cs.R}})
		key, _ := jsonStr(cs)
		c.Ev.Count(key, r.Status == "ok" || r.Status == "error", "operator:"+cs.Op, "status:"+r.Status)
		if r.Fatal() || r.Status == "infra" {
			return fatalFail(r)
		}
		return nil
	})

	p.Run = func(c *Ctx) {
		vals, argl := c02Values(), c02ArgLists()
		idx := 0
		done := true
		for _, f := range gen.TwigFilters {
			for _, v := range vals {
				if v.K == "dag" || v.K == "dagarr" || v.K == "cyclicarr" {
					// written out as a tree this value has 2^40 leaves: only the
					// operators, which need not write it out, are given it
					continue
				}
				for _, a := range argl {
					idx++
					if !c.Mine(idx) {
						continue
					}
					if !flt.Check(c, &c02Filter{Filter: f, Val: v, Args: a}) {
						done = false
					}
				}
			}
		}
		c.Ev.S.Exhaustive["filter_x_value_x_args"] = done && !c.Expired()
		// operator grid; ranges get small operands only (statement: < 1e6 elements)
		done = true
		for _, op := range ops {
			for _, l := range vals {
				for _, r := range vals {
					idx++
					if !c.Mine(idx) {
						continue
					}
					isSpecial := func(k string) bool {
						return k == "safe" || k == "dag" || k == "nilptr:customsafe" || k == "dagarr" || k == "cyclicarr"
					}
					special := isSpecial(l.K) && isSpecial(r.K)
					if c.Quick() && !special && Mix(c.Seed, uint64(idx))%6 != 0 {
						continue
					}
					if op == ".." && (bigNum(l) || bigNum(r)) {
						continue
					}
					if !opSub.Check(c, &c02Op{Op: op, L: l, R: r}) {
						done = false
					}
				}
			}
		}
		if !c.Quick() {
			c.Ev.S.Exhaustive["operator_x_kind_x_kind"] = done && !c.Expired()
		}
		cfg := gen.Cfg{ExprDepth: 3, BodyLen: 3, Nest: 3, Calls: true, Comments: true, Verbatim: true, If: true, For: true, LoopMeta: true, ForIf: true,
			Set: true, SetCap: true, FilterSec: true, Macros: true, Blocks: true, Do: true, NonIterable: true, Wild: true}
		prog.Rapid(c, c.Share(c.Pick(30000, 1500000)), func(t *rapid.T) *c02Case {
			g := &gen.G{T: t, C: cfg}
			env := rapid.SampledFrom([]string{"core", "twig"}).Draw(t, "env")
			if env == "twig" {
				g.C.WildFilters = append(append([]string(nil), gen.TwigFilters...), "wrap", "up", "nosuchfilter")
			}
			prog, _ := g.WildProgram(env)
			if env == "twig" {
				// mixed content types
				exts := []string{"", ".html", ".js", ".css", ".txt", ".html.twig", ".xml"}
				ren := map[string]string{}
				for _, tp := range prog.Tpls {
					ren[tp.Name] = tp.Name + rapid.SampledFrom(exts).Draw(t, "ext")
				}
				renameTemplates(prog, ren)
			}
			return &c02Case{P: prog}
		})
		if !c.Quick() && c.Shard == 0 {
			_, side := nativeFuzz(c, "FuzzExecWild", 120)
			for _, js := range side {
				var cs c02Case
				if json.Unmarshal([]byte(js), &cs) == nil && cs.P != nil {
					prog.Check(c, &cs)
				}
			}
		}
	}
	Register(p)
}

func bigNum(v sb.V) bool {
	switch v.K {
	case "num":
		return v.N > 1e5 || v.N < -1e5
	case "fbits", "str", "decimal", "stringer":
		return v.K == "fbits" || v.S == "\xff"
	}
	return false
}

func errClass(e string) string {
	for _, k := range []string{"parse", "ndeclared function", "ndeclared filter", "ndefined filter", "unknown test", "undefined macro", "file does not exist", "Unable to locate block", "not inside a block", "unable to iterate", "modulo", "range", "regexp", "right operand", "block expects"} {
		if strings.Contains(e, k) {
			return k
		}
	}
	if e == "" {
		return ""
	}
	return "other"
}

// renameTemplates renames templates and every literal reference to them.
func renameTemplates(p *m.Program, ren map[string]string) {
	for _, tp := range p.Tpls {
		tp.Name = ren[tp.Name]
		m.Exprs(tp.Body, func(e *m.E) {
			if e.K == "str" {
				if n, ok := ren[e.S]; ok {
					e.S = n
				}
			}
		})
		m.Walk(tp.Body, func(n *m.N, _ int) {
			for _, b := range n.Blocks {
				m.Exprs([]*m.N{b}, func(e *m.E) {})
			}
		})
	}
	if n, ok := ren[p.Entry]; ok {
		p.Entry = n
	}
}

func longArr(n int) sb.V {
	v := sb.V{K: "arr"}
	for i := 0; i < n; i++ {
		v.E = append(v.E, sb.V{K: "num", N: float64(i)})
	}
	return v
}
