package props

import (
	"encoding/json"
	"fmt"
	"sort"
	"strings"

	m "verif/internal/model"
	"verif/internal/sb"
)

// progCase is the serialisable case of every model-based check.
type progCase struct {
	P *m.Program `json:"p"`
}

// execReq builds the worker request that runs a model program in stick.
func execReq(p *m.Program) *sb.Req {
	req := &sb.Req{Op: "exec", Env: p.Env, Loader: p.Loader, Templates: p.Sources(), Entry: p.Entry, Ctx: map[string]sb.V{}}
	if req.Loader == "" {
		req.Loader = "memory"
	}
	for _, c := range p.Ctx {
		req.Ctx[c.Name] = m.ToV(c.V, c.Carrier)
	}
	return req
}

func callsEqual(a, b []sb.CallRec) (bool, string) {
	for i := 0; i < len(a) || i < len(b); i++ {
		if i >= len(a) {
			return false, fmt.Sprintf("call #%d: model has none, stick has %s", i, callStr(b[i]))
		}
		if i >= len(b) {
			return false, fmt.Sprintf("call #%d: model has %s, stick has none", i, callStr(a[i]))
		}
		if callStr(a[i]) != callStr(b[i]) {
			return false, fmt.Sprintf("call #%d: model %s, stick %s", i, callStr(a[i]), callStr(b[i]))
		}
	}
	return true, ""
}

func callStr(c sb.CallRec) string {
	return fmt.Sprintf("%s(%s)@%s", c.Name, strings.Join(c.Args, ";"), c.Tpl)
}

func callsStr(cs []sb.CallRec) string {
	parts := make([]string, len(cs))
	for i, c := range cs {
		parts[i] = callStr(c)
	}
	return strings.Join(parts, " ")
}

// compareOpts tunes compareModel.
type compareOpts struct {
	noCalls bool // do not compare the call log
}

// compareModel runs p in stick and compares with the model's prediction.
// It returns (model result, stick observation, failure). A discarded case
// returns a nil failure and res.Status == "discard".
func compareModel(c *Ctx, p *m.Program, opt compareOpts) (*m.Result, *sb.Resp, *Fail) {
	res := m.Eval(p)
	if res.Status == "discard" {
		c.Ev.S.Discarded++
		c.Ev.Label("discard:"+discardClass(res.Why), 1)
		return res, nil, nil
	}
	// State carried from a failed execution into a later one (pooled or
	// reused buffers that are only cleaned on the success path) must not show:
	// for one case in four a failing template that has emitted text inside
	// every capturing construct is executed in the same worker first.
	key := progKey(p)
	if hashStr(key)%4 == 0 {
		poison := c.SB.Do(&sb.Req{Op: "exec", Env: p.Env, Loader: "memory", Entry: "poison", Templates: map[string]string{"poison": poisonTemplates[hashStr(key)/4%uint64(len(poisonTemplates))]}})
		if poison.Fatal() {
			return res, poison, fatalFail(poison)
		}
		c.Ev.Label("poisoned-before", 1)
	}
	req := execReq(p)
	// one case in five renders through ExecuteSafe: same bytes on success,
	// nothing at all on failure
	if hashStr(key)%5 == 1 {
		req.Safe = true
		c.Ev.Label("via-ExecuteSafe", 1)
	}
	// one memory-loader case in six is served by a user-written Loader whose
	// readers use the latitude of the io.Reader contract
	if req.Loader == "memory" && hashStr(key)%6 == 2 {
		req.Loader = []string{"rd:dataeof", "rd:onebyte", "rd:chunk7", "rd:zero-reads"}[hashStr(key)/6%4]
		c.Ev.Label("loader:"+req.Loader, 1)
	}
	r := c.SB.Do(req)
	if r.Fatal() || r.Status == "infra" {
		return res, r, fatalFail(r)
	}
	src := progSrc(p)
	if req.Safe {
		src += "\n(rendered with ExecuteSafe)"
		if r.Status == "error" && r.Out != "" {
			return res, r, &Fail{Sig: "safe-wrote-on-error", Expected: "no output from a failed ExecuteSafe", Observed: r.Out + "\nsource: " + src}
		}
	}
	switch res.Status {
	case "ok":
		if r.Status != "ok" {
			return res, r, &Fail{Sig: "status:error-expected-ok", Expected: "ok: " + res.Out, Observed: "error: " + r.Err + "\nsource: " + src}
		}
		if r.Out != res.Out {
			return res, r, &Fail{Sig: "out-mismatch", Expected: diffHead(res.Out, r.Out) + res.Out, Observed: r.Out + "\nsource: " + src}
		}
		if !opt.noCalls {
			if ok, why := callsEqual(res.Calls, r.Calls); !ok {
				return res, r, &Fail{Sig: "calls-mismatch", Expected: callsStr(res.Calls), Observed: why + "\nstick: " + callsStr(r.Calls) + "\nsource: " + src}
			}
		}
	case "error":
		if r.Status != "error" {
			return res, r, &Fail{Sig: "status:ok-expected-error", Expected: "error (" + res.Why + ") after output " + res.Out, Observed: "ok: " + r.Out + "\nsource: " + src}
		}
		if !strings.HasPrefix(res.Out, r.Out) {
			return res, r, &Fail{Sig: "error-output-not-prefix", Expected: "a prefix of " + res.Out, Observed: r.Out + "\nsource: " + src}
		}
	}
	return res, r, nil
}

func discardClass(why string) string {
	if i := strings.IndexAny(why, ":"); i > 0 {
		why = why[:i]
	}
	if len(why) > 48 {
		why = why[:48]
	}
	return why
}

func progSrc(p *m.Program) string {
	srcs := p.Sources()
	names := make([]string, 0, len(srcs))
	for n := range srcs {
		names = append(names, n)
	}
	sort.Strings(names)
	var b strings.Builder
	for _, n := range names {
		fmt.Fprintf(&b, "[%s] %s\n", n, srcs[n])
	}
	var cs []string
	for _, c := range p.Ctx {
		cs = append(cs, c.Name+"="+m.Repr(c.V))
	}
	b.WriteString("ctx: " + strings.Join(cs, " "))
	return b.String()
}

func progKey(p *m.Program) string {
	b, _ := json.Marshal(p)
	return string(b)
}

// featLabels turns the model's feature counters into evidence labels.
func featLabels(res *m.Result) []string {
	var out []string
	for k := range res.Feat {
		out = append(out, "feat:"+k)
	}
	sort.Strings(out)
	return out
}

// sampleProg is the evidence sample for a program case.
func sampleProg(p *m.Program, res *m.Result) map[string]interface{} {
	tpls := map[string]string{}
	for n, s := range p.Sources() {
		tpls[n] = clip(s, 600)
	}
	return map[string]interface{}{"templates": tpls, "entry": p.Entry, "model_status": res.Status, "model_out": clip(res.Out, 300)}
}

// poisonTemplates fail at run time after emitting text inside a capture.
var poisonTemplates = []string{
	"{% set a %}STALE-SET {{ nosuchfunction() }}{% endset %}",
	"{% filter up %}stale-filter {{ nosuchfunction() }}{% endfilter %}",
	"{% macro m() %}STALE-MACRO {{ nosuchfunction() }}{% endmacro %}{{ _self.m() }}",
	"{% block b %}STALE-BLOCK {{ nosuchfunction() }}{% endblock %}{{ block('b') }}",
	"{% set a %}S1{% filter up %}s2{% set b %}S3{{ 1|nosuchfilter }}{% endset %}{% endfilter %}{% endset %}",
	"STALE-TOP{% for i in 1..3 %}{% set c %}x{{ i }}{% include 'missing' %}{% endset %}{% endfor %}",
}

// diffHead says where two long outputs part (the recorded texts are clipped).
func diffHead(want, got string) string {
	if len(want) < 2000 && len(got) < 2000 {
		return ""
	}
	i := 0
	for i < len(want) && i < len(got) && want[i] == got[i] {
		i++
	}
	from := i - 60
	if from < 0 {
		from = 0
	}
	return fmt.Sprintf("(lengths %d / %d, first difference at byte %d: want %q, got %q) ", len(want), len(got), i, clip(want[from:], 160), clip(got[from:], 160))
}
