package props

import (
	"strings"

	"verif/internal/gen"
	m "verif/internal/model"
	"verif/internal/sb"
)

// C03: literal text, comments and verbatim sections.
func init() {
	p := &Property{
		ID:        "C03",
		Level:     "exploration",
		Technique: "property-based testing (rapid): hostile literal text interleaved with constructs vs reference evaluator; metamorphic identity check for delimiter-free templates",
		Rule: "programs whose text chunks come from a hostile alphabet (multi-byte UTF-8, LF/CR/tab, lone { } % #, closing delimiters, quotes, backslashes) interleaved with prints, comments, verbatim sections and every body-carrying tag nested to depth 4; " +
			"oracle: reference evaluator output == stick output byte for byte; delimiter-free templates must render to themselves. " +
			"Non-trivial: >= 2 text chunks, at least one inside a nested body, and a non-ASCII or lone-delimiter byte in a chunk, or a comment, or a verbatim section containing a delimiter; distinct by program. Also: a fixed family of large instances (3000 alternating chunks, a 560 KB text run, 400 KB verbatim body); one case in five through ExecuteSafe, one in six through a user-written Loader whose readers return data together with EOF / one byte / seven bytes / zero-length reads.",
		Assumptions: []string{"reference evaluator trusted inside the agreement region"},
	}
	sub := modelSub(p, "text", compareOpts{}, func(cs *progCase, res *m.Result) bool {
		chunks, nested, hostile := 0, false, false
		m.Walk(cs.P.Tpls[0].Body, func(n *m.N, d int) {
			switch n.K {
			case "text":
				chunks++
				if d > 0 {
					nested = true
				}
				if strings.ContainsAny(n.S, "{}%#\r\n\\\"'") || !isASCII(n.S) {
					hostile = true
				}
			case "comment":
				hostile = true
			case "verbatim":
				if strings.ContainsAny(n.S, "{}") {
					hostile = true
				}
			}
		})
		return chunks >= 2 && nested && hostile
	})
	type identCase struct {
		Src sb.BS `json:"src"`
	}
	ident := NewSub(p, "identity", func(c *Ctx, ic *identCase) *Fail {
		cs := struct{ Src string }{string(ic.Src)}
		prog := &m.Program{Env: "core", Loader: "memory", Tpls: []*m.Tpl{{Name: "main", Body: []*m.N{m.NText(cs.Src)}}}, Entry: "main"}
		r := c.SB.Do(execReq(prog))
		c.Ev.Count("ident\x00"+cs.Src, len(cs.Src) > 3 && !isASCII(cs.Src) || strings.ContainsAny(cs.Src, "{}%#"), "identity")
		if r.Fatal() || r.Status == "infra" {
			return fatalFail(r)
		}
		if r.Status != "ok" || r.Out != cs.Src {
			return &Fail{Sig: "identity", Expected: cs.Src, Observed: r.Status + ": " + r.Out + r.Err}
		}
		return nil
	})
	p.Run = func(c *Ctx) {
		runScale(c, sub, "C03")
		cfg := gen.Cfg{ExprDepth: 1, BodyLen: 4, Nest: 4, HostileText: true, Comments: true, Verbatim: true, If: true, For: true,
			SetCap: true, FilterSec: true, Calls: true, Macros: true, Blocks: true, BigText: true}
		sub.Rapid(c, c.Share(c.Pick(20000, 1000000)), func(t *rapidT) *progCase {
			pc := progGen(cfg)(t)
			// '-' markers on delimiters that have no adjacent whitespace (stick
			// does not trim; where nothing could be trimmed the output is the same)
			for _, tp := range pc.P.Tpls {
				markTrims(t, tp.Body)
			}
			return pc
		})
		// text inside blocks, overrides, captures and loops of inheritance
		// chains (the C09 shapes): emitted once, in the root's order
		sub.Rapid(c, c.Share(c.Pick(3000, 150000)), func(t *rapidT) *progCase {
			return &progCase{P: gen.BuildInherit(gen.GenInherit(t))}
		})
		ident.Rapid(c, c.Share(c.Pick(5000, 200000)), func(t *rapidT) *identCase {
			g := &gen.G{T: t, C: gen.Cfg{HostileText: true}}
			var b strings.Builder
			for i, n := 0, rapidInt(t, 1, 5); i < n; i++ {
				b.WriteString(g.Text())
			}
			s := b.String()
			for strings.Contains(s, "{{") || strings.Contains(s, "{%") || strings.Contains(s, "{#") {
				s = strings.Replace(strings.Replace(strings.Replace(s, "{{", "{ {", -1), "{%", "{ %", -1), "{#", "{ #", -1)
			}
			if rapidInt(t, 0, 3) == 0 {
				s += "{" // a lone brace as the very last byte
			}
			return &identCase{Src: sb.BS(s)}
		})
	}
	Register(p)
}

func isASCII(s string) bool {
	for i := 0; i < len(s); i++ {
		if s[i] >= 0x80 {
			return false
		}
	}
	return true
}
