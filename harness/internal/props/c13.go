package props

import (
	"encoding/json"
	"html"
	"strconv"
	"net/url"
	"regexp"
	"strings"
	"unicode"
	"unicode/utf8"

	"pgregory.net/rapid"

	"verif/internal/sb"
)

// C13: the escapers emit only inert characters and lose no information.

type c13Case struct {
	Esc string `json:"esc"`
	S   sb.BS  `json:"s"`
	T   sb.BS  `json:"t,omitempty"` // second part for the homomorphism check
}

// c13Seq is a sequence of escaper calls in one worker process.
type c13Seq struct {
	Steps []c13Case `json:"steps"`
}

func hashKey(s string) string {
	if len(s) > 256 {
		return s[:128] + "#" + strconv.Itoa(len(s)) + "#" + s[len(s)-96:]
	}
	return s
}

var escapers = []string{"html", "html_attr", "js", "css", "url"}

var (
	reHTMLAttr = regexp.MustCompile(`^(?:[A-Za-z0-9,.\-_]|&(?:quot|amp|lt|gt);|&#[0-9]+;|&#xFFFD;)*$`)
	reJS       = regexp.MustCompile(`^(?:[A-Za-z0-9,._]|\\u[0-9A-Fa-f]{4})*$`)
	reCSS      = regexp.MustCompile(`^(?:[A-Za-z0-9]|\\[0-9A-Fa-f]{1,6} ?)*$`)
	reURL      = regexp.MustCompile(`^(?:[A-Za-z0-9\-._~]|%[0-9A-Fa-f]{2})*$`)
	reHTMLAmp  = regexp.MustCompile(`&(?:amp;|lt;|gt;|quot;|#39;|#x27;|#039;)`)
)

// inert checks that out only contains characters that cannot terminate or
// alter the target context.
func inert(esc, out string) string {
	switch esc {
	case "html":
		if strings.ContainsAny(out, "<>\"'") {
			return "html output contains one of < > \" '"
		}
		rest := reHTMLAmp.ReplaceAllString(out, "")
		if strings.Contains(rest, "&") {
			return "html output contains & that does not start one of the five entities"
		}
	case "html_attr":
		if !reHTMLAttr.MatchString(out) {
			return "html_attr output outside [A-Za-z0-9,.-_] / entities"
		}
	case "js":
		if !reJS.MatchString(out) {
			return "js output outside [A-Za-z0-9,._] / \\uXXXX"
		}
	case "css":
		if !reCSS.MatchString(out) {
			return "css output outside [A-Za-z0-9] / hex escapes"
		}
	case "url":
		if !reURL.MatchString(out) {
			return "url output outside unreserved / %XX"
		}
	}
	return ""
}

// cssDecode implements CSS Syntax Level 3 escape decoding: a backslash
// followed by 1-6 hex digits and one optional whitespace, or a backslash
// followed by any other character (which stands for itself).
func cssDecode(s string) string {
	var b strings.Builder
	for i := 0; i < len(s); {
		if s[i] != '\\' {
			r, n := utf8.DecodeRuneInString(s[i:])
			b.WriteRune(r)
			i += n
			continue
		}
		i++
		j, v := i, rune(0)
		for j < len(s) && j-i < 6 && isHex(s[j]) {
			v = v*16 + hexVal(s[j])
			j++
		}
		if j == i {
			if i < len(s) {
				r, n := utf8.DecodeRuneInString(s[i:])
				b.WriteRune(r)
				i += n
			}
			continue
		}
		if v == 0 || v > unicode.MaxRune || (v >= 0xD800 && v <= 0xDFFF) {
			v = 0xFFFD
		}
		b.WriteRune(v)
		i = j
		if i < len(s) && (s[i] == ' ' || s[i] == '\t' || s[i] == '\n' || s[i] == '\f' || s[i] == '\r') {
			if s[i] == '\r' && i+1 < len(s) && s[i+1] == '\n' {
				i++
			}
			i++
		}
	}
	return b.String()
}

func isHex(c byte) bool {
	return (c >= '0' && c <= '9') || (c >= 'a' && c <= 'f') || (c >= 'A' && c <= 'F')
}
func hexVal(c byte) rune {
	switch {
	case c >= '0' && c <= '9':
		return rune(c - '0')
	case c >= 'a' && c <= 'f':
		return rune(c-'a') + 10
	}
	return rune(c-'A') + 10
}

// decode applies the standard decoder of the target context.
func decode(esc, out string) (string, bool) {
	switch esc {
	case "html", "html_attr":
		return html.UnescapeString(out), true
	case "js":
		var s string
		if err := json.Unmarshal([]byte(`"`+out+`"`), &s); err != nil {
			return "", false
		}
		return s, true
	case "css":
		return cssDecode(out), true
	case "url":
		s, err := url.QueryUnescape(out)
		return s, err == nil
	}
	return "", false
}

// mustRewrite reports whether the escaper has to rewrite at least one
// character of s (non-triviality).
func mustRewrite(esc, s string) bool {
	for _, r := range s {
		alnum := r < 0x80 && (unicode.IsLetter(r) || unicode.IsDigit(r))
		switch esc {
		case "html":
			if strings.ContainsRune("<>&\"'", r) {
				return true
			}
		default:
			if !alnum {
				return true
			}
		}
	}
	return false
}

// cssKnownClass: a rewritten character (code point < 0x100000, i.e. fewer than
// six hex digits) immediately followed by a literal hex digit.
func cssKnownClass(s string) bool {
	rs := []rune(s)
	for i := 0; i+1 < len(rs); i++ {
		r, n := rs[i], rs[i+1]
		alnum := r < 0x80 && (unicode.IsLetter(r) || unicode.IsDigit(r))
		if !alnum && r < 0x100000 && n < 0x80 && isHex(byte(n)) {
			return true
		}
	}
	return false
}

// roundTripExempt: html_attr deliberately replaces control characters.
func roundTripExempt(esc, s string) bool {
	if esc == "css" {
		// CSS cannot denote U+0000 at all (the standard decoder maps \0 to
		// U+FFFD), so no escaper can round-trip it.
		return strings.ContainsRune(s, 0)
	}
	return false
}

// sameButReplacedControls: html_attr may deliberately replace a control
// character by U+FFFD; everything else has to come back unchanged. (A control
// character that is neither kept nor replaced - written as a numeric reference
// which decoders remap, like &#128; - is a loss.)
func sameButReplacedControls(in, dec string) bool {
	a, b := []rune(in), []rune(dec)
	if len(a) != len(b) {
		return false
	}
	for i := range a {
		if a[i] != b[i] && !(unicode.Is(unicode.Cc, a[i]) && b[i] == 0xFFFD) {
			return false
		}
	}
	return true
}

// c13Judge decides one (escaper, input, output) triple.
func c13Judge(esc, in, out string) *Fail {
	if why := inert(esc, out); why != "" {
		return &Fail{Sig: "alphabet:" + esc, Expected: why, Observed: out}
	}
	if esc != "url" && !utf8.ValidString(in) {
		return nil // losslessness is claimed for valid UTF-8 only
	}
	if roundTripExempt(esc, in) {
		return nil
	}
	dec, ok := decode(esc, out)
	if ok && esc == "html_attr" && sameButReplacedControls(in, dec) {
		return nil
	}
	if !ok || dec != in {
		sig := "roundtrip:" + esc
		if esc == "css" && cssKnownClass(in) {
			sig = "roundtrip:css:rewritten-char-followed-by-hexdigit"
		}
		return &Fail{Sig: sig, Expected: in, Observed: "escaped " + out + " decodes to " + dec}
	}
	return nil
}

func init() {
	p := &Property{
		ID:        "C13",
		Level:     "exploration",
		Technique: "exhaustive enumeration of all code points and boundary pairs + property-based testing (rapid) with round-trip (standard decoders), alphabet and homomorphism oracles",
		Rule: "inputs for html, html_attr, js, css, url: (a) every Unicode scalar value and every byte 0x80-0xFF as a one-character string (exhaustive), (b) every ordered pair over a 48-character boundary alphabet (exhaustive), " +
			"(c) random strings up to 200 runes mixing all classes. Oracles: output matches the inert language of its context; the context's standard decoder (html.UnescapeString, JSON string decoding, a CSS-Syntax-3 escape decoder, url.QueryUnescape) recovers the input for all valid UTF-8 " +
			"(html_attr: control characters exempt); escape(a+b) == escape(a)+escape(b). Non-trivial: the input contains a character the escaper must rewrite; distinct by (escaper, input).",
		Assumptions: []string{
			"decoders: Go's html.UnescapeString, encoding/json, net/url and a CSS Syntax Level 3 escape decoder written for this check",
			"known finding: CSS escapes are not terminated, so a rewritten character followed by a literal hex digit decodes wrongly (pinned by ExampleCSS); that class only is suppressed",
		},
	}
	one := NewSub(p, "escape", func(c *Ctx, cc *c13Case) *Fail {
		cs := struct{ Esc, S, T string }{cc.Esc, string(cc.S), string(cc.T)}
		r := c.SB.Do(&sb.Req{Op: "escape", Name: cs.Esc, Strs: []string{cs.S, cs.T, cs.S + cs.T}})
		if r.Fatal() || r.Status != "ok" {
			return fatalFail(r)
		}
		c.Ev.Count(cs.Esc+"\x00"+cs.S+"\x00"+cs.T, mustRewrite(cs.Esc, cs.S+cs.T), "esc:"+cs.Esc)
		if f := c13Judge(cs.Esc, cs.S+cs.T, r.Strs[2]); f != nil {
			return f
		}
		if utf8.ValidString(cs.S) && utf8.ValidString(cs.T) && r.Strs[0]+r.Strs[1] != r.Strs[2] {
			return &Fail{Sig: "homomorphism:" + cs.Esc, Expected: r.Strs[0] + r.Strs[1], Observed: r.Strs[2]}
		}
		return nil
	})

	seq := NewSub(p, "sequence", func(c *Ctx, cs *c13Seq) *Fail {
		total := 0
		for _, st := range cs.Steps {
			r := c.SB.Do(&sb.Req{Op: "escape", Name: st.Esc, Strs: []string{string(st.S)}, DeadlineMs: 10000})
			if r.Fatal() || r.Status != "ok" {
				return fatalFail(r)
			}
			total += len(st.S)
			if f := c13Judge(st.Esc, string(st.S), r.Strs[0]); f != nil {
				if k := c.Known.Match("C13", f.Sig); k != nil {
					c.Ev.S.Known[k.ID]++
					continue
				}
				f.Sig = "sequence:" + f.Sig
				f.Expected, f.Observed = clip(f.Expected, 300), clip(f.Observed, 300)
				return f
			}
		}
		key, _ := jsonStr(cs)
		c.Ev.Count(hashKey(key), len(cs.Steps) >= 2 && total > 65536, "sequence")
		return nil
	})

	// batch runs many single strings through one escaper.
	batch := func(c *Ctx, esc string, ins []string, label string) bool {
		r := c.SB.DoOnce(&sb.Req{Op: "escape", Name: esc, Strs: ins, DeadlineMs: 10000})
		if r.Status != "ok" || len(r.Strs) != len(ins) {
			for _, s := range ins {
				if !one.Check(c, &c13Case{Esc: esc, S: sb.BS(s)}) {
					return false
				}
			}
			return true
		}
		for i, s := range ins {
			f := c13Judge(esc, s, r.Strs[i])
			nt := mustRewrite(esc, s)
			c.Ev.Count(esc+"\x00"+s, nt, "esc:"+esc, label)
			if nt && i%997 == 0 {
				c.Ev.Sample(map[string]string{"escaper": esc, "in": s, "out": r.Strs[i]})
			}
			if f != nil {
				// authoritative single-case path (also applies known findings)
				if !one.Check(c, &c13Case{Esc: esc, S: sb.BS(s)}) {
					return false
				}
			}
		}
		return true
	}

	boundary := []string{"0", "1", "9", "a", "f", "A", "F", "g", "G", "z", "\\", "&", "#", ";", "%", "+", "x", "u", " ", "\t", "\n", "\r", "\f",
		"\"", "'", "<", ">", "\x00", "\x7f", "\u0080", " ", "￿", "\U00010000", "\U0001F600", "\U0010FFFF", "\U000FFFFF", "-", "_", ".", ",", "~", "/", "=", "`", "é", " ", "�", "\x1f"}

	p.Run = func(c *Ctx) {
		// (a) every scalar value
		chunk := 8192
		idx := 0
		complete := true
		for _, esc := range escapers {
			for lo := 0; lo <= unicode.MaxRune && complete; lo += chunk {
				mine := c.Mine(idx)
				idx++
				if !mine {
					continue
				}
				var ins []string
				for r := lo; r < lo+chunk && r <= unicode.MaxRune; r++ {
					if r >= 0xD800 && r <= 0xDFFF {
						continue
					}
					ins = append(ins, string(rune(r)))
				}
				if len(ins) > 0 && !batch(c, esc, ins, "part:codepoints") {
					complete = false
				}
				if c.Expired() {
					complete = false
				}
			}
			if c.Shard == 0 {
				var ins []string
				for b := 0x80; b <= 0xFF; b++ {
					ins = append(ins, string([]byte{byte(b)}))
				}
				if !batch(c, esc, ins, "part:invalid-bytes") {
					complete = false
				}
			}
		}
		c.Ev.S.Exhaustive["all_scalar_values_x_5_escapers"] = complete
		// (b) boundary pairs
		complete = true
		for ei, esc := range escapers {
			if !c.Mine(ei) {
				continue
			}
			var ins []string
			for _, a := range boundary {
				for _, b := range boundary {
					ins = append(ins, a+b)
				}
			}
			if !batch(c, esc, ins, "part:pairs") {
				complete = false
			}
		}
		c.Ev.S.Exhaustive["boundary_pairs"] = complete
		// (c) random strings, with the homomorphism check
		runeGen := rapid.OneOf(
			rapid.SampledFrom([]rune("09afAFgz \t\n\r\\&#;%+<>\"'-_.,~/=")),
			rapid.Rune(),
			rapid.RuneFrom(nil, unicode.Cc, unicode.Han, unicode.Hebrew, unicode.So),
			rapid.SampledFrom([]rune{0, 0x7f, 0x80, 0x9f, 0xa0, 0xffff, 0x10000, 0x1F600, 0x10FFFF, 0xFFFFF, 0xfffd}),
		)
		// strings are built from runes and from tokens that look like output of
		// the escapers themselves (entities, \u and % escapes, CSS escapes)
		tokens := []string{"&lt;", "&gt;", "&amp;", "&quot;", "&#39;", "&#x27;", "&#60;", "&amp;lt;", "&#xFFFD;", "\\u003C", "\\u00e9", "\\3C ", "\\00003C", "%3C", "%25", "%u003c", "+", "\\n", "\\\\", "</script>", "<!--", "]]>"}
		pieceGen := rapid.OneOf(rapid.Map(runeGen, func(r rune) string { return string(r) }), rapid.SampledFrom(tokens))
		strGen := rapid.Map(rapid.SliceOfN(pieceGen, 0, 120), func(ps []string) string { return strings.Join(ps, "") })
		one.Rapid(c, c.Share(c.Pick(20000, 2000000)), func(t *rapid.T) *c13Case {
			cs := &c13Case{Esc: rapid.SampledFrom(escapers).Draw(t, "esc"), S: sb.BS(strGen.Draw(t, "s"))}
			if rapid.Bool().Draw(t, "split") {
				cs.T = sb.BS(strGen.Draw(t, "t"))
			}
			if cs.Esc == "url" && rapid.IntRange(0, 3).Draw(t, "bytes") == 0 {
				cs.S += sb.BS(rapid.SliceOfN(rapid.Byte(), 0, 8).Draw(t, "raw"))
			}
			return cs
		})
		// sequences: a very large input followed by small ones (state kept
		// between calls - pooled buffers, caches - must not leak into a result)
		seq.Rapid(c, c.Share(c.Pick(400, 20000)), func(t *rapid.T) *c13Seq {
			cs := &c13Seq{}
			unit := strGen.Draw(t, "unit")
			if unit == "" {
				unit = "<&\"'"
			}
			n := rapid.IntRange(1, 4).Draw(t, "n")
			for i := 0; i < n; i++ {
				s := strGen.Draw(t, "s")
				if i == 0 || rapid.IntRange(0, 3).Draw(t, "big") == 0 {
					s = strings.Repeat(unit, 1+rapid.IntRange(20000, 90000).Draw(t, "rep")/len(unit))
				}
				cs.Steps = append(cs.Steps, c13Case{Esc: rapid.SampledFrom(escapers).Draw(t, "esc"), S: sb.BS(s)})
			}
			return cs
		})
		if !c.Quick() && c.Shard == 0 {
			inputs, _ := nativeFuzz(c, "FuzzEscape", 60)
			for _, in := range inputs {
				for _, esc := range escapers {
					one.Check(c, &c13Case{Esc: esc, S: sb.BS(in)})
				}
			}
		}
	}
	Register(p)
}

// C13Judge exposes the escaper oracle to the native fuzz target: it returns the
// failure signature and description, or two empty strings.
func C13Judge(esc, in, out string) (string, string) {
	if f := c13Judge(esc, in, out); f != nil {
		return f.Sig, f.Expected + " / " + f.Observed
	}
	return "", ""
}
