package props

import (
	"verif/internal/gen"
	m "verif/internal/model"
)

// C08: captured output.
func init() {
	p := &Property{
		ID:        "C08",
		Level:     "exploration",
		Technique: "property-based testing (rapid): generated nestings of capturing constructs vs reference evaluator, comparing the exact main-writer output",
		Rule: "programs nesting (depth <= 5) set-capture, filter sections with 1-3 recording filters, macro calls and block() around text and prints, captures inside loops, captured variables printed several times, more output after each construct; " +
			"oracle: reference evaluator main-writer output and callback log (filter inputs are the captured strings). " +
			"Non-trivial: >= 2 capturing constructs of different kinds were executed; distinct by program. Also: a failing print or include inserted, after some text, at a random statement of a random template (the output at the time of the error must be a prefix of the model output, so captured text must not have reached the main writer); large instances (150 nested captures, 1200 sibling captures, a 330 KB capture).",
		Assumptions: []string{"reference evaluator trusted inside the agreement region"},
	}
	sub := modelSub(p, "capture", compareOpts{}, func(cs *progCase, res *m.Result) bool {
		f := res.Feat
		k := 0
		for _, n := range []string{"setcap", "filter-section", "macro-call", "block()"} {
			if f[n] > 0 {
				k++
			}
		}
		return k >= 2
	})
	p.Run = func(c *Ctx) {
		runScale(c, sub, "C08")
		cfg := gen.Cfg{ExprDepth: 2, BodyLen: 4, Nest: 5, Calls: true, If: true, For: true, Set: true, SetCap: true, FilterSec: true, Macros: true, Blocks: true, HostileText: true, BigText: true}
		sub.Rapid(c, c.Share(c.Pick(16000, 800000)), progGen(cfg))
		// captures across templates of one execution: block bodies wrapped in
		// filter sections (different filter lists per level) rendered through
		// inheritance, parent() and block()
		sub.Rapid(c, c.Share(c.Pick(4000, 200000)), func(t *rapidT) *progCase {
			ic := gen.GenInherit(t)
			ic.FilterFirst = true
			return &progCase{P: gen.BuildInherit(ic)}
		})
		// a failure inside a capturing construct, directly after some text of
		// that construct: what was captured so far must not have reached the main
		// writer (the output at the time of the error is a prefix of the model's)
		sub.Rapid(c, c.Share(c.Pick(5000, 250000)), func(t *rapidT) *progCase {
			var prog *m.Program
			if rapidInt(t, 0, 1) == 0 {
				ic := gen.GenInherit(t)
				ic.FilterFirst = rapidInt(t, 0, 1) == 0
				prog = gen.BuildInherit(ic)
			} else {
				prog = progGen(cfg)(t).P
			}
			tp := prog.Tpls[rapidInt(t, 0, len(prog.Tpls)-1)]
			n := countStmts(tp.Body)
			idx := rapidInt(t, 0, n)
			ok := true
			fail := []*m.N{m.NText("<partial>"), m.NPrint(m.ECall("nosuchfunction"))}
			if rapidInt(t, 0, 2) == 0 {
				fail = []*m.N{m.NText("<partial>"), {K: "include", X: m.EStr("no-such-template")}}
			}
			tp.Body = insertBefore(tp.Body, &idx, fail, false, &ok)
			return &progCase{P: prog}
		})
	}
	Register(p)
}
