package props

import (
	"verif/internal/gen"
	m "verif/internal/model"
)

// C08: captured output.
func init() {
	p := &Property{
		ID:        "C08",
		Level:     "exploration",
		Technique: "property-based testing (rapid): generated nestings of capturing constructs vs reference evaluator, comparing the exact main-writer output",
		Rule: "programs nesting (depth <= 5) set-capture, filter sections with 1-3 recording filters, macro calls and block() around text and prints, captures inside loops, captured variables printed several times, more output after each construct; " +
			"oracle: reference evaluator main-writer output and callback log (filter inputs are the captured strings). " +
			"Non-trivial: >= 2 capturing constructs of different kinds were executed; distinct by program.",
		Assumptions: []string{"reference evaluator trusted inside the agreement region"},
	}
	sub := modelSub(p, "capture", compareOpts{}, func(cs *progCase, res *m.Result) bool {
		f := res.Feat
		k := 0
		for _, n := range []string{"setcap", "filter-section", "macro-call", "block()"} {
			if f[n] > 0 {
				k++
			}
		}
		return k >= 2
	})
	p.Run = func(c *Ctx) {
		runScale(c, sub, "C08")
		cfg := gen.Cfg{ExprDepth: 2, BodyLen: 4, Nest: 5, Calls: true, If: true, For: true, Set: true, SetCap: true, FilterSec: true, Macros: true, Blocks: true, HostileText: true, BigText: true}
		sub.Rapid(c, c.Share(c.Pick(16000, 800000)), progGen(cfg))
		// captures across templates of one execution: block bodies wrapped in
		// filter sections (different filter lists per level) rendered through
		// inheritance, parent() and block()
		sub.Rapid(c, c.Share(c.Pick(4000, 200000)), func(t *rapidT) *progCase {
			ic := gen.GenInherit(t)
			ic.FilterFirst = true
			return &progCase{P: gen.BuildInherit(ic)}
		})
	}
	Register(p)
}
