package props

import (
	"fmt"
	"strings"

	"pgregory.net/rapid"

	"verif/internal/gen"
	m "verif/internal/model"
)

// c08Chain is a filter section whose filters hand a value on: hraw marks its
// input as safe, hesc escapes what is not marked (and marks the result), up
// returns a new plain string, fid returns its input unchanged.
type c08Chain struct {
	Body    string   `json:"body"`
	Filters []string `json:"filters"`
	Where   string   `json:"where"` // top | setcap | macro | block
}

func c08ChainExpect(cs *c08Chain) string {
	text, safe := cs.Body, false
	for _, f := range cs.Filters {
		switch f {
		case "hraw":
			safe = true
		case "up":
			text, safe = strings.ToUpper(text), false
		case "hesc":
			if !safe {
				text = strings.NewReplacer("&", "&amp;", "<", "&lt;", ">", "&gt;", `"`, "&quot;", "'", "&#39;").Replace(text)
				safe = true
			}
		}
	}
	return "A" + text + "Z"
}

// C08: captured output.
func init() {
	p := &Property{
		ID:        "C08",
		Level:     "exploration",
		Technique: "property-based testing (rapid): generated nestings of capturing constructs vs reference evaluator, comparing the exact main-writer output",
		Rule: "programs nesting (depth <= 5) set-capture, filter sections with 1-3 recording filters, macro calls and block() around text and prints, captures inside loops, captured variables printed several times, more output after each construct; " +
			"oracle: reference evaluator main-writer output and callback log (filter inputs are the captured strings). " +
			"Non-trivial: >= 2 capturing constructs of different kinds were executed; distinct by program. Also: a failing print or include inserted, after some text, at a random statement of a random template (the output at the time of the error must be a prefix of the model output, so captured text must not have reached the main writer); a macro that loops and calls itself from the loop body (bounded depth) and reads loop variables, metadata, parameters and captures after the nested call; a block that prints nothing itself (text under conditions and loops on the surrounding loop's variables) rendered in place and through block(), captures and filter sections in every iteration; large instances (150 nested captures, 1200 sibling captures, a 330 KB capture); filter sections whose 1-4 filters mark, escape, rewrite or pass on their input (hraw / hesc / up / fid), at the top level, in a capture, a macro and a block - the section's value is what the chain makes of the text, each filter receiving the previous one's result unchanged (analytic oracle).",
		Assumptions: []string{"reference evaluator trusted inside the agreement region"},
	}
	sub := modelSub(p, "capture", compareOpts{}, func(cs *progCase, res *m.Result) bool {
		f := res.Feat
		k := 0
		for _, n := range []string{"setcap", "filter-section", "macro-call", "block()"} {
			if f[n] > 0 {
				k++
			}
		}
		return k >= 2
	})
	// the value of a filter section is what the *chain* of its filters makes of
	// the captured text: each filter receives what the previous one returned
	// (a value marked safe stays marked), not a re-made string
	chain := NewSub(p, "filter-chain", func(c *Ctx, cs *c08Chain) *Fail {
		sec := &m.N{K: "filter", Names: cs.Filters, Body: []*m.N{m.NText(cs.Body)}}
		var body []*m.N
		switch cs.Where {
		case "setcap":
			body = []*m.N{m.NText("A"), {K: "setcap", S: "cv", Body: []*m.N{sec}}, m.NPrint(m.EName("cv")), m.NText("Z")}
		case "macro":
			body = []*m.N{{K: "macro", S: "mf", Body: []*m.N{sec}}, m.NText("A"), m.NPrint(&m.E{K: "mcall", S: "mf", T: "self"}), m.NText("Z")}
		case "block":
			body = []*m.N{m.NText("A"), {K: "block", S: "bf", Body: []*m.N{sec}}, m.NText("Z")}
		default:
			body = []*m.N{m.NText("A"), sec, m.NText("Z")}
		}
		prog := &m.Program{Env: "core", Loader: "memory", Tpls: []*m.Tpl{{Name: "main", Body: body}}, Entry: "main"}
		r := c.SB.Do(execReq(prog))
		key, _ := jsonStr(cs)
		marked := false
		for i, f := range cs.Filters {
			marked = marked || (f == "hraw" && i+1 < len(cs.Filters))
		}
		c.Ev.Count("chain\x00"+key, marked && strings.ContainsAny(cs.Body, "<>&\"'"), "filter-chain", "where:"+cs.Where, fmt.Sprintf("filters:%d", len(cs.Filters)))
		if r.Fatal() || r.Status == "infra" {
			return fatalFail(r)
		}
		if want := c08ChainExpect(cs); r.Status != "ok" || r.Out != want {
			return &Fail{Sig: "filter-chain", Expected: want, Observed: r.Status + ": " + r.Out + r.Err}
		}
		return nil
	})
	p.Run = func(c *Ctx) {
		chain.Rapid(c, c.Share(c.Pick(1500, 100000)), func(t *rapid.T) *c08Chain {
			return &c08Chain{
				Body:    rapid.StringOfN(rapid.SampledFrom([]rune("<b>&\"'x y")), 1, 8, -1).Draw(t, "body"),
				Filters: rapid.SliceOfN(rapid.SampledFrom([]string{"hraw", "hesc", "up", "fid", "hraw", "hesc"}), 1, 4).Draw(t, "filters"),
				Where:   rapid.SampledFrom([]string{"top", "setcap", "macro", "block"}).Draw(t, "where"),
			}
		})
		runScale(c, sub, "C08")
		cfg := gen.Cfg{ExprDepth: 2, BodyLen: 4, Nest: 5, Calls: true, If: true, For: true, Set: true, SetCap: true, FilterSec: true, Macros: true, Blocks: true, HostileText: true, BigText: true, RecMacro: true}
		sub.Rapid(c, c.Share(c.Pick(16000, 800000)), progGen(cfg))
		// captures across templates of one execution: block bodies wrapped in
		// filter sections (different filter lists per level) rendered through
		// inheritance, parent() and block()
		sub.Rapid(c, c.Share(c.Pick(4000, 200000)), func(t *rapidT) *progCase {
			ic := gen.GenInherit(t)
			ic.FilterFirst = true
			return &progCase{P: gen.BuildInherit(ic)}
		})
		// a failure inside a capturing construct, directly after some text of
		// that construct: what was captured so far must not have reached the main
		// writer (the output at the time of the error is a prefix of the model's)
		sub.Rapid(c, c.Share(c.Pick(5000, 250000)), func(t *rapidT) *progCase {
			var prog *m.Program
			if rapidInt(t, 0, 1) == 0 {
				ic := gen.GenInherit(t)
				ic.FilterFirst = rapidInt(t, 0, 1) == 0
				prog = gen.BuildInherit(ic)
			} else {
				prog = progGen(cfg)(t).P
			}
			tp := prog.Tpls[rapidInt(t, 0, len(prog.Tpls)-1)]
			n := countStmts(tp.Body)
			idx := rapidInt(t, 0, n)
			ok := true
			fail := []*m.N{m.NText("<partial>"), m.NPrint(m.ECall("nosuchfunction"))}
			if rapidInt(t, 0, 2) == 0 {
				fail = []*m.N{m.NText("<partial>"), {K: "include", X: m.EStr("no-such-template")}}
			}
			tp.Body = insertBefore(tp.Body, &idx, fail, false, &ok)
			return &progCase{P: prog}
		})
		// the value of block() is what the block renders at the moment of the
		// call: a block whose body prints nothing itself (text under conditions
		// and loops on the surrounding loop's variables) rendered in place and
		// through block(), captures and filter sections in every iteration
		sub.Rapid(c, c.Share(c.Pick(1500, 80000)), func(t *rapidT) *progCase {
			n := rapidInt(t, 2, 4)
			var part func(d int) *m.N
			part = func(d int) *m.N {
				switch k := rapidInt(t, 0, 4); {
				case k == 0 || d == 0:
					return m.NText([]string{"a", "b", ".", ", ", "*"}[rapidInt(t, 0, 4)])
				case k == 1:
					return &m.N{K: "if", X: m.EBin("==", m.EName("i"), m.ENum(float64(rapidInt(t, 1, n)))), Body: []*m.N{part(d - 1)}, HasElse: true, Else: []*m.N{part(d - 1)}}
				case k == 2:
					return &m.N{K: "if", X: m.EAttr(m.EName("loop"), []string{"last", "first"}[rapidInt(t, 0, 1)]), Body: []*m.N{part(d - 1)}, HasElse: rapidInt(t, 0, 1) == 0, Else: []*m.N{m.NText("-")}}
				case k == 3:
					return &m.N{K: "for", S: "j", X: m.EBin("..", m.ENum(1), m.EName("i")), Body: []*m.N{part(d - 1)}}
				}
				return &m.N{K: "if", X: m.EBin("<", m.EName("i"), m.ENum(float64(rapidInt(t, 1, n)))), Body: []*m.N{part(d - 1)}}
			}
			blk := &m.N{K: "block", S: "sep"}
			for i, k := 0, rapidInt(t, 1, 3); i < k; i++ {
				blk.Body = append(blk.Body, part(2))
			}
			call := &m.E{K: "blockfn", A: []*m.E{m.EStr("sep")}}
			body := []*m.N{m.NPrint(m.EName("i"))}
			if rapidInt(t, 0, 1) == 0 {
				body = append(body, blk)
			}
			for i, k := 0, rapidInt(t, 1, 3); i < k; i++ {
				switch rapidInt(t, 0, 2) {
				case 0:
					body = append(body, m.NPrint(call))
				case 1:
					body = append(body, &m.N{K: "setcap", S: "cap", Body: []*m.N{m.NText("<"), m.NPrint(call), m.NText(">")}}, m.NPrint(m.EName("cap")), m.NPrint(m.EName("cap")))
				default:
					body = append(body, &m.N{K: "filter", Names: []string{"wrap"}, Body: []*m.N{m.NPrint(call)}})
				}
			}
			loop := &m.N{K: "for", S: "i", X: m.EBin("..", m.ENum(1), m.ENum(float64(n))), Body: body}
			tp := &m.Tpl{Name: "main", Body: []*m.N{m.NText("["), loop, m.NText("]")}}
			if len(body) > 0 && body[1] != blk {
				// the block is defined after the loop, inside a capture that is never printed
				tp.Body = append(tp.Body, &m.N{K: "setcap", S: "unused", Body: []*m.N{&m.N{K: "for", S: "i", X: m.EBin("..", m.ENum(1), m.ENum(1)), Body: []*m.N{blk}}}})
			}
			return &progCase{P: &m.Program{Env: "core", Loader: "memory", Entry: "main", Tpls: []*m.Tpl{tp}}}
		})
	}
	Register(p)
}
