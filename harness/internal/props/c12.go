package props

import (
	"encoding/json"
	"fmt"
	"regexp"
	"strings"

	"pgregory.net/rapid"

	m "verif/internal/model"
	"verif/internal/sb"
)

// C12: auto-escaping.

type c12Case struct {
	P      *m.Program `json:"p"`
	Inline bool       `json:"inline,omitempty"` // string loader: the source is the name
}

// contentType is the statement's rule: the escaper registered under the
// template name's extension (a trailing .twig ignored), nothing for txt, html
// otherwise - in particular for names without extension, unknown extensions
// and inline sources.
func contentType(name string, inline bool) string {
	if inline {
		return "html"
	}
	name = strings.TrimSuffix(name, ".twig")
	i := strings.LastIndex(name, ".")
	if i < 0 {
		return "html"
	}
	switch ext := name[i+1:]; ext {
	case "html", "js", "css", "url", "html_attr":
		return ext
	case "txt":
		return "none"
	}
	return "html"
}

var c12Payloads = []string{"<b>&\"'", "</script>", "a'b\"c", "x&y<z", "\\n;}{", "é<ü>", "1<2", "a b/c=d", "'+alert(1)+'", "&amp;", "%20&#39;", "plain",
	// nothing but letters and digits, some of them beyond ASCII: html leaves these alone, js / css / url / html_attr do not
	"Zoë", "日本語", "abc\u2028alert1", "ÿ", "a1", ""}
var c12Names = []string{"a.html", "b.html.twig", "c.js", "d.js.twig", "e.css", "f.txt", "g.txt.twig", "noext", "h.twig", "i.xml", "dir.d/x", "k.tpl", "l.css.twig", "m.htm",
	// names without any dot that equal a content-type key
	"txt", "js", "css.twig", "html_attr", "txt.twig", "dir/js", ".txt", "a.b.js"}

type c12gen struct {
	t      *rapid.T
	ntpl   int
	names  []string
	macros []string
}

func (g *c12gen) intn(lo, hi int) int { return rapid.IntRange(lo, hi).Draw(g.t, "n") }
func (g *c12gen) flip() bool          { return rapid.Bool().Draw(g.t, "b") }

func (g *c12gen) payloadVar() *m.E {
	return m.EName(rapid.SampledFrom([]string{"p0", "p1", "p2", "sh", "sj", "sa", "st", "sn", "bs", "pb", "ob", "on", "sh5", "nl", "nf"}).Draw(g.t, "pv"))
}

func (g *c12gen) text() *m.N {
	return m.NText(rapid.StringMatching(`[A-Za-z0-9]{1,4}`).Draw(g.t, "txt"))
}

func (g *c12gen) payloadExpr(d int) *m.E {
	if d <= 0 {
		return g.payloadVar()
	}
	switch g.intn(0, 13) {
	case 0, 1, 2:
		return g.payloadVar()
	case 3:
		return m.EFilter("raw", g.payloadExpr(d-1))
	case 4:
		return m.EFilter("escape", g.payloadExpr(d-1))
	case 5:
		if g.intn(0, 2) == 0 {
			// a strategy that is computed: a variable (which may name no
			// escaper at all: the value is then left as it is, and escaped for
			// the template's type like any other), a conditional, a concatenation
			strat := []*m.E{m.EName("strat"), m.ECond(m.EName("flag"), m.EStr("html"), m.EStr("js")), m.EBin("~", m.EStr("ht"), m.EStr("ml")), m.ECond(m.EName("flag"), m.EName("strat"), m.EStr("css"))}[g.intn(0, 3)]
			return m.EFilter("escape", g.payloadExpr(d-1), strat)
		}
		return m.EFilter("escape", g.payloadExpr(d-1), m.EStr(rapid.SampledFrom([]string{"html", "js", "css", "url", "html_attr"}).Draw(g.t, "et")))
	case 6:
		return m.EBin("~", g.payloadExpr(d-1), g.payloadExpr(d-1))
	case 7:
		return &m.E{K: "interp", A: []*m.E{m.EStr("i"), g.payloadVar(), m.EStr("j")}}
	case 8:
		return m.ECond(m.EName("flag"), g.payloadExpr(d-1), g.payloadExpr(d-1))
	case 9:
		return m.EIdx(m.EArr(m.EStr("z"), g.payloadExpr(d-1)), m.ENum(1))
	case 10:
		return m.EAttr(&m.E{K: "hash", KS: []*m.E{m.EName("k")}, A: []*m.E{g.payloadExpr(d - 1)}}, "k")
	case 11:
		return m.EFilter(rapid.SampledFrom([]string{"up", "fid", "wrap"}).Draw(g.t, "hf"), g.payloadExpr(d-1))
	case 12:
		return m.EStr(rapid.SampledFrom([]string{"<i>", "a&b", "q\"q"}).Draw(g.t, "lit"))
	default:
		if len(g.macros) > 0 {
			return &m.E{K: "mcall", S: g.macros[0], T: "self", A: []*m.E{g.payloadExpr(d - 1)}}
		}
		return g.payloadVar()
	}
}

func (g *c12gen) body(idx, nest int) []*m.N {
	var out []*m.N
	for i, n := 0, g.intn(1, 4); i < n; i++ {
		out = append(out, g.stmt(idx, nest)...)
	}
	return out
}

func (g *c12gen) stmt(idx, nest int) []*m.N {
	k := g.intn(0, 10)
	if nest <= 0 && k >= 3 {
		k = g.intn(0, 2)
	}
	switch k {
	case 0:
		return []*m.N{g.text()}
	case 1, 2:
		return []*m.N{m.NPrint(g.payloadExpr(2))}
	case 3:
		n := &m.N{K: "if", X: m.EName("flag"), Body: g.body(idx, nest-1)}
		if g.flip() {
			n.HasElse, n.Else = true, g.body(idx, nest-1)
		}
		return []*m.N{n}
	case 4:
		return []*m.N{{K: "for", S: "it", X: m.EArr(g.payloadVar(), g.payloadVar()), Body: append(g.body(idx, nest-1), m.NPrint(m.EName("it")))}}
	case 5:
		return []*m.N{{K: "setcap", S: "cap", Body: g.body(idx, nest-1)}, m.NPrint(m.EName("cap"))}
	case 6:
		return []*m.N{{K: "filter", Names: []string{rapid.SampledFrom([]string{"up", "fid"}).Draw(g.t, "ff")}, Body: g.body(idx, nest-1)}}
	case 7:
		if idx+1 < g.ntpl {
			target := g.names[g.intn(idx+1, g.ntpl-1)]
			n := &m.N{K: "include", X: m.EStr(target)}
			if g.flip() {
				n.K = "embed"
				if g.flip() {
					n.Blocks = append(n.Blocks, &m.N{K: "block", S: "a", Body: g.body(idx, nest-1)})
				}
			}
			return []*m.N{n}
		}
	case 8:
		return []*m.N{{K: "set", S: "v", X: g.payloadExpr(1)}, m.NPrint(m.EName("v"))}
	case 9:
		return []*m.N{{K: "do", X: m.ECall("id", g.payloadVar())}}
	}
	return []*m.N{m.NPrint(g.payloadExpr(1))}
}

func (g *c12gen) program(sameType bool) *m.Program {
	p := &m.Program{Env: "twig", Loader: "memory"}
	g.ntpl = g.intn(1, 4)
	var pool []string
	if sameType {
		groups := [][]string{{"a.html", "b.html.twig", "noext", "h.twig", "i.xml", "dir.d/x", "k.tpl", "m.htm", "txt", "js", "css.twig", "html_attr", "txt.twig", "dir/js"}, {"c.js", "d.js.twig", "a.b.js"}, {"e.css", "l.css.twig"}, {"f.txt", "g.txt.twig", ".txt"}}
		pool = rapid.SampledFrom(groups).Draw(g.t, "group")
	} else {
		pool = c12Names
	}
	used := map[string]bool{}
	for i := 0; i < g.ntpl; i++ {
		n := rapid.SampledFrom(pool).Draw(g.t, "name")
		for used[n] {
			n = "x" + n
		}
		used[n] = true
		g.names = append(g.names, n)
	}
	p.Entry = g.names[0]
	for i := g.ntpl - 1; i >= 0; i-- {
		t := &m.Tpl{Name: g.names[i]}
		g.macros = nil
		if g.flip() {
			t.Body = append(t.Body, &m.N{K: "macro", S: "mac", Names: []string{"q"}, Body: []*m.N{g.text(), m.NPrint(m.EName("q")), m.NPrint(g.payloadVar())}})
			g.macros = []string{"mac"}
		}
		ext := i+1 < g.ntpl && g.intn(0, 2) > 0
		if ext {
			t.Body = append([]*m.N{{K: "extends", X: m.EStr(g.names[g.intn(i+1, g.ntpl-1)])}}, t.Body...)
		}
		for _, bn := range []string{"a", "b"} {
			if g.flip() {
				b := &m.N{K: "block", S: bn, Body: g.body(i, 2)}
				if ext && g.flip() {
					b.Body = append(b.Body, m.NPrint(&m.E{K: "parent"}))
				}
				t.Body = append(t.Body, b)
			}
		}
		if !ext {
			t.Body = append(t.Body, g.body(i, 3)...)
		}
		p.Tpls = append(p.Tpls, t)
	}
	return p
}

func c12Ctx(t *rapid.T) map[string]sb.V {
	pl := func() string { return rapid.SampledFrom(c12Payloads).Draw(t, "payload") }
	str := func(s string) sb.V { return sb.V{K: "str", S: s} }
	return map[string]sb.V{
		"p0": str(pl()), "p1": str(pl()), "p2": str(pl()), "flag": {K: "bool", B: rapid.Bool().Draw(t, "flag")},
		"sh": {K: "safe", TS: []string{"html"}, E: []sb.V{str("<RAW1&>")}},
		"sj": {K: "safe", TS: []string{"js"}, E: []sb.V{str("<RAW2'>")}},
		"sa": {K: "safe", TS: []string{"html", "js", "css"}, E: []sb.V{str("<RAW3\">")}},
		"st": {K: "stringer", S: pl()},
		// values that are Boolean and Stringer at once, Boolean or Number only
		"bs": {K: "boolstringer", S: pl(), B: rapid.Bool().Draw(t, "bsvalid")},
		"pb": {K: "ptr", E: []sb.V{{K: "boolstringer", S: pl(), B: true}}},
		"ob": {K: "boolean", B: true}, "on": {K: "number", N: 2.5},
		"sn": {K: "safe", TS: []string{"css"}, E: []sb.V{{K: "safe", TS: []string{"html"}, E: []sb.V{str("<RAW4;>")}}}},
		// sh5 is safe for html only; sw5 (never printed) is the same object
		// marked for js as well: making it must not widen sh5
		"sh5": {K: "safe", TS: []string{"html"}, E: []sb.V{str("<RAW5&>")}},
		// numbers of defined types whose String method returns markup: what is
		// printed is that text, not the number
		"nl": {K: "named:hlevel", N: 3}, "nf": {K: "named:hratio", N: 0.5},
		"strat": str(rapid.SampledFrom([]string{"html", "js", "css", "nope", "txt", "", "html_attr"}).Draw(t, "strat")),
		"sw5": {K: "wrapof", S: "sh5", TS: []string{"js", "css"}},
	}
}

// translate rewrites a Twig-environment program into the equivalent program
// with explicit escaping for the core environment.
func c12Translate(p *m.Program, inline bool) *m.Program {
	b, _ := json.Marshal(p)
	var q m.Program
	json.Unmarshal(b, &q)
	q.Env = "core"
	var fixE func(e *m.E)
	fixE = func(e *m.E) {
		if e == nil {
			return
		}
		if e.K == "filter" {
			switch e.S {
			case "raw":
				e.S = "hraw"
			case "escape":
				e.S = "hesc"
				if len(e.A) == 1 {
					e.A = append(e.A, m.EStr("html"))
				}
			}
		}
		for _, a := range e.A {
			fixE(a)
		}
		for _, a := range e.KS {
			fixE(a)
		}
	}
	for _, t := range q.Tpls {
		ct := contentType(t.Name, inline)
		var fix func(ns []*m.N)
		fix = func(ns []*m.N) {
			for _, n := range ns {
				fixE(n.X)
				fixE(n.Y)
				for _, el := range n.Elifs {
					fixE(el.Cond)
					fix(el.Body)
				}
				if n.K == "print" {
					n.X = m.EFilter("hesc", n.X, m.EStr(ct))
				}
				fix(n.Body)
				fix(n.Else)
				fix(n.Blocks)
			}
		}
		fix(t.Body)
	}
	return &q
}

// Inert languages for the safety oracle. Filter sections may upper-case
// already escaped output, so the patterns ignore case; for html the decisive
// condition is the absence of the four characters that can leave the context.
var reInert = map[string]*regexp.Regexp{
	"html": regexp.MustCompile(`^[^<>"']*$`),
	"js":   regexp.MustCompile(`(?i)^(?:[A-Za-z0-9,._]|\\u[0-9A-F]{4})*$`),
	"css":  regexp.MustCompile(`(?i)^(?:[A-Za-z0-9]|\\[0-9A-F]{1,6} ?)*$`),
}

func init() {
	p := &Property{
		ID:        "C12",
		Level:     "exploration",
		Technique: "property-based testing (rapid): differential between the Twig environment's automatic escaping and an explicit-escaping translation run on the core environment, plus an inert-language safety oracle",
		Rule: "programs for twig.New over memory and string loaders: template names with extensions html, html.twig, js, js.twig, css, txt, none, .twig only, unknown (.xml, .tpl, .htm, dir.d/x) and inline sources with and without '.'; payloads with characters significant in HTML, JS, CSS and URLs carried by strings, Stringers (structs and defined integer / float types) and values marked safe for the same / another / several types (nested; one of them also re-marked for further types through a second wrapper around the same object); prints at top level, in if/for bodies, blocks, overriding and inherited blocks of other content types, included and embedded templates, set captures, filter sections, macro bodies, conditional branches, interpolations, concatenations, array/hash elements, through raw, escape, escape(type) - the type a literal, a variable that may name no escaper, a conditional or a concatenation - and neutral filters. " +
			"Oracles: (E) the output equals that of the translated program in which every print is explicitly escaped for the defining template's content type as the statement prescribes (registered extension / txt -> none / otherwise html), raw and same-type safe values exempt, run on the core environment; (S) for programs of one content type, after removing the payloads deliberately routed through raw / same-type safe values the output lies in that type's inert language. " +
			"Non-trivial: a payload contains a character special for the sink and the print is not at top level of an .html template; distinct by program and context. Context values also include types implementing Boolean and Stringer at once, Boolean only and Number only (also behind pointers); a foreign, reconfigured AutoEscapeExtension instance exists in the process; payloads of letters and digits beyond ASCII.",
		Assumptions: []string{"the core executor and the escapers are checked by the other properties; this check decides selection of the escaper and the number of applications"},
	}
	type full struct {
		C   c12Case          `json:"c"`
		Ctx map[string]sb.V `json:"ctx"`
		One bool             `json:"one_type,omitempty"`
	}
	chk := NewSub(p, "escape-selection", func(c *Ctx, cs *full) *Fail {
		loader := "memory"
		entry := cs.C.P.Entry
		tpls := cs.C.P.Sources()
		q := c12Translate(cs.C.P, cs.C.Inline)
		qt := q.Sources()
		qentry := q.Entry
		if cs.C.Inline {
			loader = "string"
			entry = tpls[entry]
			qentry = qt[qentry]
		}
		a := c.SB.Do(&sb.Req{Op: "exec", Env: "twig", Loader: loader, Templates: tpls, Entry: entry, Ctx: cs.Ctx})
		if a.Fatal() || a.Status == "infra" {
			return fatalFail(a)
		}
		b := c.SB.Do(&sb.Req{Op: "exec", Env: "core", Loader: loader, Templates: qt, Entry: qentry, Ctx: cs.Ctx})
		if b.Fatal() || b.Status == "infra" {
			return fatalFail(b)
		}
		// non-triviality: some print outside the top level of an html template
		nt := false
		for _, t := range cs.C.P.Tpls {
			ct := contentType(t.Name, cs.C.Inline)
			m.Walk(t.Body, func(n *m.N, d int) {
				if n.K == "print" && (d > 0 || ct != "html" || !strings.HasSuffix(t.Name, ".html")) {
					nt = true
				}
			})
		}
		key, _ := jsonStr(cs)
		labels := []string{"status:" + a.Status}
		for _, t := range cs.C.P.Tpls {
			labels = append(labels, "type:"+contentType(t.Name, cs.C.Inline), "name-class:"+nameClass(t.Name, cs.C.Inline))
		}
		c.Ev.Count(key, nt && a.Status == "ok", labels...)
		if nt && a.Status == "ok" {
			c.Ev.Sample(map[string]interface{}{"templates": tpls, "entry": entry, "out": clip(a.Out, 200)})
		}
		if a.Status != b.Status {
			return &Fail{Sig: "status-differs", Expected: b.Status + " " + b.Err, Observed: a.Status + " " + a.Err + "\n" + fmt.Sprint(tpls)}
		}
		if a.Status == "ok" && a.Out != b.Out {
			return &Fail{Sig: "escape-selection:" + nameClassOfDiff(cs.C.P, cs.C.Inline), Expected: b.Out, Observed: a.Out + "\ntemplates: " + fmt.Sprint(tpls) + "\nexplicit: " + fmt.Sprint(qt)}
		}
		if cs.One && a.Status == "ok" {
			ct := contentType(cs.C.P.Tpls[0].Name, cs.C.Inline)
			if re, ok := reInert[ct]; ok {
				out := a.Out
				// (a payload marked safe is allowed verbatim only in the types
				// it is marked for)
				for raw, types := range map[string]string{"<RAW1&>": "html", "<RAW2'>": "js", "<RAW3\">": "html js css", "<RAW4;>": "css html", "<RAW5&>": "html"} {
					if strings.Contains(" "+types+" ", " "+ct+" ") {
						out = strings.ReplaceAll(out, raw, "")
					}
				}
				// payloads routed through raw are allowed verbatim: remove them too
				hasRaw := false
				for _, t := range cs.C.P.Tpls {
					m.Exprs(t.Body, func(e *m.E) {
						if e.K == "filter" && (e.S == "raw") {
							hasRaw = true
						}
					})
				}
				if !hasRaw && !re.MatchString(out) {
					return &Fail{Sig: "unsafe-output:" + ct, Expected: "output in the inert language of " + ct, Observed: a.Out}
				}
			}
		}
		return nil
	})
	p.Run = func(c *Ctx) {
		n := c.Share(c.Pick(25000, 1000000))
		chk.Rapid(c, n/2, func(t *rapid.T) *full {
			g := &c12gen{t: t}
			return &full{C: c12Case{P: g.program(false)}, Ctx: c12Ctx(t)}
		})
		chk.Rapid(c, n/4, func(t *rapid.T) *full {
			g := &c12gen{t: t}
			return &full{C: c12Case{P: g.program(true)}, Ctx: c12Ctx(t), One: true}
		})
		chk.Rapid(c, n/4, func(t *rapid.T) *full {
			g := &c12gen{t: t}
			g.ntpl = 1
			g.names = []string{"inline"}
			tp := &m.Tpl{Name: "inline"}
			if rapid.Bool().Draw(t, "dot") {
				tp.Body = append(tp.Body, m.NText(rapid.SampledFrom([]string{"a.b", "Hello. ", "x.js", "v1.2", "end."}).Draw(t, "dotted")))
			}
			tp.Body = append(tp.Body, g.body(0, 2)...)
			if rapid.Bool().Draw(t, "dot2") {
				tp.Body = append(tp.Body, m.NText(rapid.SampledFrom([]string{".", ".txt", " a.css"}).Draw(t, "dotted2")))
			}
			return &full{C: c12Case{P: &m.Program{Env: "twig", Loader: "string", Tpls: []*m.Tpl{tp}, Entry: "inline"}, Inline: true}, Ctx: c12Ctx(t), One: true}
		})
	}
	Register(p)
}

func nameClass(name string, inline bool) string {
	if inline {
		if strings.Contains(name, ".") {
			return "inline-with-dot"
		}
		return "inline"
	}
	n := strings.TrimSuffix(name, ".twig")
	i := strings.LastIndex(n, ".")
	if i < 0 {
		if strings.HasSuffix(name, ".twig") {
			return "twig-only"
		}
		return "no-extension"
	}
	switch n[i+1:] {
	case "html", "js", "css", "txt":
		if strings.HasSuffix(name, ".twig") {
			return n[i+1:] + ".twig"
		}
		return n[i+1:]
	}
	return "unknown-extension"
}

func nameClassOfDiff(p *m.Program, inline bool) string {
	cls := map[string]bool{}
	for _, t := range p.Tpls {
		name := t.Name
		if inline {
			name = m.Source(t.Body)
		}
		cls[nameClass(name, inline)] = true
	}
	for _, k := range []string{"inline-with-dot", "unknown-extension"} {
		if cls[k] {
			return k
		}
	}
	return "other"
}
