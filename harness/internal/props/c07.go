package props

import (
	"verif/internal/gen"
	m "verif/internal/model"
)

// C07: variable scoping.
func init() {
	p := &Property{
		ID:        "C07",
		Level:     "exploration",
		Technique: "property-based testing (rapid): generated set/for/if/macro nestings with colliding names vs the scope discipline of the reference evaluator, observed through output and a probe() callback",
		Rule: "programs made of set, set-capture, if, for, macro definition/call and probe(name) (reports defined?/value from Context.Scope()), names drawn from small pools so loop variables, macro parameters, captures and outer variables collide; " +
			"the generator withholds what the statement excludes (set of a shadowed name, macro bodies reading caller variables). Oracle: reference evaluator output and callback log. " +
			"Non-trivial: the model run updated an existing variable from inside a loop/if, or created a loop-local variable, and the program observes variables after a loop or macro call; distinct by program. probe() reads the name through Scope().Get and Scope().All() and reports a disagreement; loops over lists of nulls; a macro that loops and calls itself from the loop body (bounded depth) and reads loop variables, metadata, parameters and captures after the nested call; large instances (1100 variables updated from inside loops, 120 nested loops over one name).",
		Assumptions: []string{"reference evaluator trusted inside the agreement region; a variable first set in one iteration and read in a later one is outside the region (stick scopes per iteration)"},
	}
	sub := modelSub(p, "scope", compareOpts{}, func(cs *progCase, res *m.Result) bool {
		f := res.Feat
		return (f["set-update"] > 0 || f["set-new"] > 0) && (f["for-multi"] > 0 || f["macro-call"] > 0 || f["for-empty"] > 0)
	})
	p.Run = func(c *Ctx) {
		runScale(c, sub, "C07")
		cfg := gen.Cfg{ExprDepth: 2, BodyLen: 4, Nest: 4, Calls: true, Probe: true, If: true, For: true, Set: true, SetCap: true, Macros: true, Collide: true, LoopMeta: true, RecMacro: true}
		sub.Rapid(c, c.Share(c.Pick(25000, 1000000)), progGen(cfg))
		// the same programs as the child of a layout: the leading assignments
		// stay at the template's top level, the rest moves into a block ("a set
		// at template level is visible to everything that follows")
		sub.Rapid(c, c.Share(c.Pick(6000, 250000)), func(t *rapidT) *progCase {
			pc := progGen(cfg)(t)
			main := pc.P.Tpls[0]
			var top, rest []*m.N
			i := 0
			for ; i < len(main.Body); i++ {
				k := main.Body[i].K
				if k != "set" && k != "setcap" && k != "macro" && k != "if" && k != "for" && k != "do" {
					break
				}
				top = append(top, main.Body[i])
			}
			rest = main.Body[i:]
			if len(top) == 0 {
				top = []*m.N{{K: "set", S: "title", X: m.EStr("T")}}
				rest = append([]*m.N{m.NPrint(m.EName("title"))}, rest...)
			}
			main.Body = append(append([]*m.N{{K: "extends", X: m.EStr("layout")}}, top...), &m.N{K: "block", S: "body", Body: rest})
			pc.P.Tpls = append(pc.P.Tpls, &m.Tpl{Name: "layout", Body: []*m.N{m.NText("L["), {K: "block", S: "body", Body: []*m.N{m.NText("default")}}, m.NText("]"),
				m.NPrint(m.ECall("probe", m.EStr("title"))), m.NPrint(m.ECall("probe", m.EStr("v0")))}})
			return pc
		})
	}
	Register(p)
}
