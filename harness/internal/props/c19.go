package props

import (
	"fmt"
	"strings"

	"pgregory.net/rapid"

	"verif/internal/gen"
	m "verif/internal/model"
	"verif/internal/sb"
)

// C19: no goroutines or file handles are left behind.

type c19Case struct {
	Templates map[string]string `json:"templates"`
	Calls     []sb.Call         `json:"calls"`
	// BigMB > 0: template "bigbroken" is a syntax error followed by that many
	// megabytes of well-formed rows (built on the fly, not stored in the case)
	BigMB int `json:"big_mb,omitempty"`
}

func init() {
	p := &Property{
		ID:        "C19",
		Level:     "exploration",
		Technique: "stateful property-based testing (rapid): generated call histories with an invariant on the goroutine profile and the open-descriptor set after the history",
		Rule: "histories of 1-40 calls drawn from {Parse, Execute, ExecuteSafe} x loaders {string, memory, filesystem over a generated directory} x templates {valid; a syntax error injected at a random token position or a truncation at a random offset (so that unread tokens remain); run-time failure; missing file; valid template including / extending a broken or missing one}; plus one history over a template whose syntax error is followed by 16 MB of well-formed source. " +
			"Oracle (invariant after the history, GC disabled for its duration, bounded 200 ms settle): the goroutine profile contains no new goroutine with a stick frame and the set of open descriptors equals the set before the history. " +
			"Non-trivial: the history contains >= 1 parse failure that leaves unread tokens and >= 1 filesystem load; counted per distinct history.",
		Assumptions: []string{"goroutines are attributed to the library by a stick frame on their stack; descriptors by /proc/self/fd", "GC is disabled during a history so that os.File finalizers cannot mask an unclosed file"},
	}
	sub := NewSub(p, "history", func(c *Ctx, cs *c19Case) *Fail {
		tpls := cs.Templates
		if cs.BigMB > 0 {
			tpls = map[string]string{}
			for k, v := range cs.Templates {
				tpls[k] = v
			}
			row := "<tr><td>{{ row.id }}</td><td>{{ row.name|up }}</td>{% if row.ok %}<td>ok</td>{% endif %}</tr>\n"
			tpls["bigbroken"] = "{% if %}\n" + strings.Repeat(row, cs.BigMB<<20/len(row))
			tpls["inc-big"] = "head{% include 'bigbroken' %}tail"
		}
		r := c.SB.Do(&sb.Req{Op: "leak", Templates: tpls, Calls: cs.Calls, DeadlineMs: 30000})
		nfail, nfs := 0, 0
		for i, call := range cs.Calls {
			if call.Loader == "fs" {
				nfs++
			}
			if i < len(r.Subs) && r.Subs[i].IsE && strings.Contains(r.Subs[i].Err, "parse") {
				nfail++
			}
		}
		key, _ := jsonStr(cs)
		c.Ev.Count(key, nfail >= 1 && nfs >= 1, fmt.Sprintf("calls:%d", len(cs.Calls)/10*10))
		if nfail >= 1 && nfs >= 1 {
			c.Ev.Sample(map[string]interface{}{"calls": cs.Calls, "templates": cs.Templates})
		}
		if r.Fatal() || r.Status != "ok" {
			return fatalFail(r)
		}
		if len(r.Goroutines) > 0 {
			site := r.Goroutines[0]
			if i := strings.Index(site, " at "); i >= 0 {
				site = site[i+4:]
			}
			return &Fail{Sig: "goroutine-leak:" + strings.TrimSuffix(site, "]"), Expected: "no goroutine with a stick frame after the calls returned",
				Observed: fmt.Sprintf("%d leaked: %s", len(r.Goroutines), strings.Join(r.Goroutines, "; "))}
		}
		if len(r.FDs) > 0 {
			return &Fail{Sig: "descriptor-leak", Expected: "the open descriptors of before the history", Observed: fmt.Sprintf("%d still open: %s", len(r.FDs), strings.Join(r.FDs, "; "))}
		}
		return nil
	})
	cfg := gen.Cfg{ExprDepth: 2, BodyLen: 3, Nest: 2, Calls: true, If: true, For: true, Set: true, SetCap: true, FilterSec: true, Macros: true, Blocks: true, Comments: true}
	genHistory := func(t *rapid.T, maxCalls int) *c19Case {
		cs := &c19Case{Templates: map[string]string{}}
		// a pool of templates: valid, broken (injected / truncated), run-time failing, referring to broken or missing ones
		var prog *m.Program
		switch rapid.IntRange(0, 3).Draw(t, "kind") {
		case 0:
			prog = gen.BuildInherit(gen.GenInherit(t))
		case 1:
			prog = (&gen.G{T: t, C: gen.Cfg{Calls: true}}).IncludeProgram()
		default:
			prog = (&gen.G{T: t, C: cfg}).Program()
		}
		var names []string
		for n, s := range prog.Sources() {
			cs.Templates[n] = s
			names = append(names, n)
		}
		sortStr(names)
		var broken []string
		for i, n := range names {
			src := cs.Templates[n]
			frags := gen.Fragments(src)
			if len(frags) == 0 {
				continue
			}
			bn := fmt.Sprintf("broken%d", i)
			switch rapid.IntRange(0, 2).Draw(t, "how") {
			case 0:
				k := rapid.IntRange(0, len(frags)-1).Draw(t, "at")
				cs.Templates[bn] = strings.Join(frags[:k], "") + rapid.SampledFrom([]string{"{{ ! }}", "{% frob %}", "{{ 1 +", "{% if %}", "{{ ( }}", "{{ 'x }}", "{# c",
					"{{ 1 + }}{# c", "{% if %}{#- c", "{% frob %}{{ 'x", "{{ \"a#{ ^ }b\" }}", "{{ \"a#{ 'oops }b\" }} tail {{ x }}", "{{ f(\"#{ ! }\") }}",
					"{% for 1 in x %}a{% endfor %}", "{{ x is 3 }}", "{% for v in x unless v %}b{% endfor %}", "{% for k, 'v' in x %}{% endfor %}", "{{ 1 is 'q' }} more {{ x }}"}).Draw(t, "junk") + strings.Join(frags[k:], "")
			case 1:
				cs.Templates[bn] = src[:rapid.IntRange(0, len(src)).Draw(t, "cut")]
			default:
				cs.Templates[bn] = "{% if x %}" + src
			}
			// sometimes a second fault further on (a parser error followed by a lexer error or vice versa)
			if rapid.IntRange(0, 2).Draw(t, "second") == 0 {
				cs.Templates[bn] += rapid.SampledFrom([]string{" and {{ 'never closed }}", "{{ 1 2 }}", "{{ ! }}", "{% block %}", "{# open"}).Draw(t, "junk2")
			}
			broken = append(broken, bn)
		}
		cs.Templates["rtfail"] = "before{% for a in 5 %}{% endfor %}after"
		cs.Templates["inc-broken"] = "a{% include '" + pickOr(broken, "missing") + "' %}b"
		cs.Templates["ext-broken"] = "{% extends '" + pickOr(broken, "missing") + "' %}{% block a %}x{% endblock %}"
		cs.Templates["inc-missing"] = "a{% include 'missing' %}b"
		cs.Templates["imp-broken"] = "{% import '" + pickOr(broken, "missing") + "' as q %}z"
		// a name that resolves to a directory with the filesystem loader
		cs.Templates["subdir/inner"] = "inner {{ 1 }}"
		cs.Templates["inc-dir"] = "a{% include 'subdir' %}b"
		all := append(append([]string{"subdir", "inc-dir", "subdir/inner"}, names...), broken...)
		all = append(all, "rtfail", "inc-broken", "ext-broken", "inc-missing", "imp-broken", "missing")
		n := rapid.IntRange(1, maxCalls).Draw(t, "ncalls")
		for i := 0; i < n; i++ {
			call := sb.Call{Kind: rapid.SampledFrom([]string{"parse", "execute", "safe"}).Draw(t, "ckind"),
				Env:    rapid.SampledFrom([]string{"core", "core", "twig"}).Draw(t, "env"),
				Loader: rapid.SampledFrom([]string{"memory", "fs", "fs", "string"}).Draw(t, "loader"),
				Entry:  rapid.SampledFrom(all).Draw(t, "entry")}
			if call.Loader == "string" {
				if src, ok := cs.Templates[call.Entry]; ok {
					call.Entry = src
				}
			}
			cs.Calls = append(cs.Calls, call)
		}
		return cs
	}
	p.Run = func(c *Ctx) {
		// a failed parse of a very long template: the call returns at once, and
		// nothing may go on working through the rest of the source afterwards
		if c.Shard == 0 {
			var calls []sb.Call
			for i := 0; i < 6; i++ {
				calls = append(calls, sb.Call{Kind: []string{"execute", "parse", "safe"}[i%3], Env: "core", Loader: []string{"memory", "fs"}[i%2], Entry: []string{"bigbroken", "inc-big"}[i/3]})
			}
			sub.Check(c, &c19Case{Templates: map[string]string{"ok": "fine"}, Calls: calls, BigMB: 16})
		}
		sub.Rapid(c, c.Share(c.Pick(2000, 200000)), func(t *rapid.T) *c19Case { return genHistory(t, 40) })
		if !c.Quick() && c.Shard == 0 {
			// one long history: counts must stay flat
			cs := rapid.Custom(func(t *rapid.T) *c19Case { return genHistory(t, 40) }).Example(int(c.Seed % (1 << 30)))
			long := &c19Case{Templates: cs.Templates}
			for len(long.Calls) < 20000 && len(cs.Calls) > 0 {
				long.Calls = append(long.Calls, cs.Calls...)
			}
			sub.Check(c, long)
		}
	}
	Register(p)
}

func pickOr(xs []string, def string) string {
	if len(xs) == 0 {
		return def
	}
	return xs[0]
}

func sortStr(xs []string) {
	for i := 1; i < len(xs); i++ {
		for j := i; j > 0 && xs[j] < xs[j-1]; j-- {
			xs[j], xs[j-1] = xs[j-1], xs[j]
		}
	}
}
