package props

import (
	"fmt"

	"pgregory.net/rapid"

	"verif/internal/gen"
	m "verif/internal/model"
)

// C09: template inheritance.

type c09Case struct {
	Cfg *gen.InheritCfg `json:"cfg"`
}

func init() {
	p := &Property{
		ID:        "C09",
		Level:     "exploration",
		Technique: "bounded-exhaustive enumeration of inheritance configurations + property-based testing (rapid) against a block-resolution model (output and who() callback log)",
		Rule: "inheritance configurations: chains of 1-4 templates x block names {a,b} (and {a,b,c} for chains <= 3) x per level and name {absent, override, override + parent() before/after}, rendered from the leaf and from every intermediate template (exhaustive); " +
			"the same with a use-import at one level (with/without alias, colliding names); random larger shapes (nested blocks, blocks in loops, block(name), parent named by a concatenation or a conditional, content outside blocks). Every block body calls who() which logs Context.Name(). " +
			"Oracle: resolution model from the statement (first definition in [own, used, parent's own, ...]; parent() = next definition after the current one; child content outside blocks dropped; who() = defining template). " +
			"Non-trivial: chain length >= 3 or a use, with at least one parent() that has an ancestor definition; distinct by configuration. Also: overrides of the block rendered inside a loop print the loop variable and metadata; a helper block imported under a different alias at each using level, onto names the chain defines itself; large instances (chains of 8 / 17 / 40 templates, 700 blocks in one pair); overriding blocks placed under if / for / for-else at the child's top level (defined there, rendered only where the root places them); use aliases onto the block's own name, onto each other's names and onto a name another alias of the tag renames.",
		Assumptions: []string{"reference resolution model trusted; at most one use per template (Twig and stick order several uses differently, the statement is silent)"},
	}
	sub := NewSub(p, "inherit", func(c *Ctx, cs *c09Case) *Fail {
		prog := gen.BuildInherit(cs.Cfg)
		res, _, f := compareModel(c, prog, compareOpts{})
		if res.Status == "discard" {
			return nil
		}
		nt := (cs.Cfg.L >= 3 || cs.Cfg.UseAt >= 0) && res.Feat["parent()"] > 0
		labels := append(featLabels(res), "model:"+res.Status, fmt.Sprintf("chain:%d", cs.Cfg.L))
		key, _ := jsonStr(cs.Cfg)
		c.Ev.Count(key, nt, labels...)
		if nt {
			c.Ev.Sample(sampleProg(prog, res))
		}
		return f
	})
	large := modelSub(p, "large", compareOpts{}, func(cs *progCase, res *m.Result) bool { return true })
	p.Run = func(c *Ctx) {
		runScale(c, large, "C09")
		idx := 0
		okAll := true
		enum := func(L, names int, withUse bool) {
			levels := L - 1
			cells := levels * names
			total := 1
			for i := 0; i < cells; i++ {
				total *= 4
			}
			for code := 0; code < total && okAll; code++ {
				modes := make([][]int, levels)
				x := code
				for l := 0; l < levels; l++ {
					modes[l] = make([]int, names)
					for n := 0; n < names; n++ {
						modes[l][n] = x % 4
						x /= 4
					}
				}
				for entry := 0; entry < L; entry++ {
					if entry > 0 && entry == L-1 && code > 0 {
						continue // the root alone does not depend on the modes
					}
					variants := []*gen.InheritCfg{{L: L, Names: names, Mode: modes, Entry: entry, UseAt: -1, UseAlias: -1}}
					if withUse && L >= 2 {
						for at := 0; at < L-1; at++ {
							for un := 1; un < 1<<uint(names); un++ {
								variants = append(variants, &gen.InheritCfg{L: L, Names: names, Mode: modes, Entry: entry, UseAt: at, UseNames: un, UseAlias: -1})
								for a := 0; a < names; a++ {
									if un&(1<<uint(a)) != 0 && modes[at][a] != gen.BAbsent {
										variants = append(variants, &gen.InheritCfg{L: L, Names: names, Mode: modes, Entry: entry, UseAt: at, UseNames: un, UseAlias: a})
									}
								}
							}
						}
						variants = variants[1:]
					}
					for _, v := range variants {
						idx++
						if !c.Mine(idx) {
							continue
						}
						if c.Quick() && withUse && Mix(c.Seed, uint64(idx))%8 != 0 {
							continue
						}
						if !sub.Check(c, &c09Case{Cfg: v}) {
							okAll = false
							return
						}
					}
				}
			}
		}
		for L := 1; L <= 4; L++ {
			if c.Quick() && L == 4 {
				continue
			}
			enum(L, 2, false)
		}
		for L := 1; L <= 3; L++ {
			if c.Quick() && L == 3 {
				continue
			}
			enum(L, 3, false)
		}
		c.Ev.S.Exhaustive["chains_x_names_x_modes"] = okAll && !c.Expired()
		for L := 2; L <= c.Pick(3, 4); L++ {
			enum(L, 2, true)
		}
		sub.Rapid(c, c.Share(c.Pick(10000, 500000)), func(t *rapid.T) *c09Case { return &c09Case{Cfg: gen.GenInherit(t)} })
	}
	Register(p)
}

// C10: include and embed.
func init() {
	p := &Property{
		ID:        "C10",
		Level:     "exploration",
		Technique: "property-based testing (rapid): generated hosts including/embedding generated targets in every form and call site vs reference evaluator (output, probe() of host variables afterwards, who())",
		Rule: "programs with include/embed x {plain, with, only, with+only} at top level, in loops, blocks and macro bodies; targets print and probe host variables, set names that collide with host variables, include lower-numbered targets, extend a base layout, define blocks whose names collide with host blocks; embed bodies override subsets of blocks (with parent()); after every step the host probes its variables. " +
			"Oracle: reference evaluator (target context = host variables unless only, overlaid with the with-hash; host scope unchanged; embed resolves against [overrides, target chain] only). " +
			"Non-trivial: an include or embed executed together with a with-hash, an only, or an embed override; distinct by program. Also: loops around call sites over lists with null elements; blocks nested inside embed overrides whose names the host defines too; large instances (include chains 60 deep, 2000 includes in a loop).",
		Assumptions: []string{"reference evaluator trusted; includes inside macro bodies use 'only' (stick exposes caller variables inside macros, Twig does not; the statement is silent)"},
	}
	sub := modelSub(p, "include", compareOpts{}, func(cs *progCase, res *m.Result) bool {
		f := res.Feat
		return (f["include"] > 0 || f["embed"] > 0) && (f["with"] > 0 || f["only"] > 0 || f["embed"] > 0)
	})
	p.Run = func(c *Ctx) {
		runScale(c, sub, "C10")
		sub.Rapid(c, c.Share(c.Pick(20000, 800000)), func(t *rapid.T) *progCase {
			g := &gen.G{T: t, C: gen.Cfg{Calls: true}}
			return &progCase{P: g.IncludeProgram()}
		})
	}
	Register(p)
}

// C11: macros.
func init() {
	p := &Property{
		ID:        "C11",
		Level:     "exploration",
		Technique: "property-based testing (rapid): generated macro libraries and calls through _self, import alias and from-import vs reference evaluator",
		Rule: "macro definitions with 0-4 parameters; calls with 0-6 arguments through _self, an import alias and from-import (plain and renamed); local macros calling lower-numbered local macros; calls inside loops, captures, filters, concatenations and other calls' arguments; results printed, assigned and passed on; the same macro through two forms with equal arguments; unknown macro of an imported set; who() in macro bodies. " +
			"Oracle: reference evaluator (positional binding, missing -> null, surplus ignored, result is a string value, unknown macro through an alias -> error, who() = defining template). " +
			"Non-trivial: an arity mismatch occurred, or a macro was called through >= 2 forms, or its result was used as a value; distinct by program. Also: the caller has variables named like the callees' parameters; unknown-macro calls inside argument lists of macros, functions and filters; a local macro named like a from-import; an import and from-import of a library named by a loop variable (two libraries defining the same macros differently); results assigned outside the blocks of an extending caller (plain and under if) and printed inside them; large instances (900 macros in a library, 70 parameters).",
		Assumptions: []string{"reference evaluator trusted; imported macros do not use _self (excluded by the statement)"},
	}
	sub := modelSub(p, "macro", compareOpts{}, func(cs *progCase, res *m.Result) bool {
		f := res.Feat
		forms := 0
		for _, k := range []string{"mcall-self", "mcall-alias", "mcall-from"} {
			if f[k] > 0 {
				forms++
			}
		}
		return f["macro-missing-arg"] > 0 || f["macro-surplus-arg"] > 0 || forms >= 2
	})
	p.Run = func(c *Ctx) {
		runScale(c, sub, "C11")
		// complete grid: parameters 0..4 x arguments 0..6 x the three call forms
		idx := 0
		done := true
		for np := 0; np <= 4; np++ {
			for na := 0; na <= 6; na++ {
				for _, form := range []string{"self", "alias", "from"} {
					idx++
					if !c.Mine(idx) {
						continue
					}
					mac := &m.N{K: "macro", S: "mm", Body: []*m.N{m.NText("mm(")}}
					for i := 0; i < np; i++ {
						pn := "p" + string(rune('0'+i))
						mac.Names = append(mac.Names, pn)
						mac.Body = append(mac.Body, m.NPrint(m.ECall("cat", m.EName(pn))))
					}
					mac.Body = append(mac.Body, m.NPrint(m.ECall("who")), m.NText(")"))
					call := &m.E{K: "mcall", S: "mm", T: form, U: "lib"}
					for i := 0; i < na; i++ {
						call.A = append(call.A, m.ENum(float64(i+1)))
					}
					main := &m.Tpl{Name: "main"}
					lib := &m.Tpl{Name: "lib", Body: []*m.N{mac}}
					switch form {
					case "self":
						main.Body = append(main.Body, mac)
					case "alias":
						main.Body = append(main.Body, &m.N{K: "import", X: m.EStr("lib"), S: "lib"})
					default:
						call.U = "fm"
						main.Body = append(main.Body, &m.N{K: "from", X: m.EStr("lib"), Pairs: [][2]string{{"mm", "fm"}}})
					}
					main.Body = append(main.Body, m.NText("["), m.NPrint(call), m.NText("]"),
						&m.N{K: "set", S: "r", X: call}, m.NPrint(m.EBin("~", m.EName("r"), m.EStr("!"))), m.NPrint(m.EFilter("wrap", call)))
					prog := &m.Program{Env: "core", Loader: "memory", Entry: "main", Tpls: []*m.Tpl{lib, main}}
					if !sub.Check(c, &progCase{P: prog}) {
						done = false
					}
				}
			}
		}
		c.Ev.S.Exhaustive["params_x_args_x_forms_grid"] = done
		sub.Rapid(c, c.Share(c.Pick(20000, 800000)), func(t *rapid.T) *progCase {
			g := &gen.G{T: t, C: gen.Cfg{Calls: true, ExprDepth: 2}}
			return &progCase{P: g.MacroProgram()}
		})
	}
	Register(p)
}
