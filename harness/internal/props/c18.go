package props

import (
	"fmt"
	"os"
	"strings"

	"pgregory.net/rapid"

	"verif/internal/gen"
	m "verif/internal/model"
	"verif/internal/sb"
)

// C18: a configured environment can be used concurrently.

type c18Case struct {
	Env       string            `json:"env"`
	Templates map[string]string `json:"templates"`
	Calls     []sb.Call         `json:"calls"`
	Procs     int               `json:"procs"`
	Yield     int               `json:"yield"`
	Serial    bool              `json:"serial,omitempty"` // the serial schedule on the shared environment
	Shared    map[string]sb.V   `json:"shared,omitempty"` // read-only application data present in every call's context
	Loader    string            `json:"loader,omitempty"` // memory (default) | fs
}

func init() {
	p := &Property{
		ID:        "C18",
		Level:     "exploration",
		Technique: "property-based testing (rapid) of concurrent workloads: differential against the same calls run alone, on a worker built with the Go race detector; schedules perturbed from user level (yielding visitor, callbacks, loader)",
		Rule: "workloads of N in {2, 8, 64} goroutines x a mix of Execute, ExecuteSafe and Parse calls on ONE environment (core or Twig) over generated templates - in the Twig environment mixing content types (.html, .js, .css, .txt, no extension), templates with and without blocks, includes, inheritance, macros - each call with its own context (in one workload in four: a nil context map for about half of the calls, on templates that assign at top level) and writer; GOMAXPROCS in {1, 4, 16}; an extra NodeVisitor, the recording callbacks and the loader yield the processor at points chosen by rapid. " +
			"One workload in five is run as the serial schedule (the calls one after the other on the shared environment). Oracles: (1) every call's (output, error) equals that of the same call run alone on a fresh environment; (2) the worker is built with -race and halts on the first report - any data race is a violation. " +
			"Non-trivial: the workload has >= 2 concurrent calls on templates that differ in content type or block structure; counted per distinct workload. Feature templates include two that apply every deterministic filter of the Twig environment.",
		Assumptions: []string{"this technique does not enumerate interleavings: a race on a path no generated workload executes stays invisible", "the race detector reports unordered conflicting accesses of the observed execution; it does not need the bad interleaving to manifest"},
		MaxShards: 8,
		UseRace:   true,
	}
	sub := NewSub(p, "workload", func(c *Ctx, cs *c18Case) *Fail {
		// a fresh worker process every few workloads: first-use initialisation
		// inside the library then happens under concurrency
		if c.SB.Requests%4 == 0 {
			c.SB.Close()
		}
		loader := cs.Loader
		if loader == "" {
			loader = "memory"
		}
		req := &sb.Req{Op: "conc", Env: cs.Env, Loader: loader, Templates: cs.Templates, Calls: cs.Calls, Procs: cs.Procs, Yield: cs.Yield, DeadlineMs: 20000, Ctx: cs.Shared}
		if cs.Serial {
			req.Extra = map[string]string{"mode": "serial"}
		}
		r := c.SB.Do(req)
		distinct := map[string]bool{}
		for _, call := range cs.Calls {
			distinct[call.Entry] = true
		}
		key, _ := jsonStr(cs)
		nt := len(cs.Calls) >= 2 && len(distinct) >= 2
		c.Ev.Count(key, nt, "loader:"+loader, fmt.Sprintf("serial:%v", cs.Serial), "env:"+cs.Env, fmt.Sprintf("goroutines:%d", len(cs.Calls)), fmt.Sprintf("procs:%d", cs.Procs))
		if nt {
			c.Ev.Sample(map[string]interface{}{"env": cs.Env, "templates": cs.Templates, "calls": len(cs.Calls), "entries": keysOf(distinct)})
		}
		if r.Race != "" || r.PanicMsg == "data race" {
			return &Fail{Sig: "data-race:" + raceSite(r.Race), Expected: "no data race inside the library", Observed: clip(r.Race, 3500)}
		}
		if r.Fatal() || r.Status != "ok" {
			return fatalFail(r)
		}
		for i := range cs.Calls {
			a, b := r.Subs2[i], r.Subs[i]
			if a.Out != b.Out || a.IsE != b.IsE || a.Err != b.Err {
				return &Fail{Sig: "concurrent-result-differs", Expected: fmt.Sprintf("call %d (%s %s) alone: %q err=%q", i, cs.Calls[i].Kind, cs.Calls[i].Entry, a.Out, a.Err),
					Observed: fmt.Sprintf("concurrently: %q err=%q", b.Out, b.Err)}
			}
		}
		return nil
	})
	cfg := gen.Cfg{ExprDepth: 2, BodyLen: 3, Nest: 2, Calls: true, If: true, For: true, Set: true, SetCap: true, FilterSec: true, Macros: true, Blocks: true}
	p.Run = func(c *Ctx) {
		sub.Rapid(c, c.Share(c.Pick(400, 13000)), func(t *rapid.T) *c18Case {
			cs := &c18Case{Env: rapid.SampledFrom([]string{"twig", "twig", "core"}).Draw(t, "env"), Templates: map[string]string{},
				Procs: rapid.SampledFrom([]int{1, 4, 16}).Draw(t, "procs"), Yield: rapid.IntRange(0, 5).Draw(t, "yield")}
			exts := []string{".html", ".js", ".css", ".txt", "", ".html.twig", ".xml"}
			var entries []string
			for k, n := 0, rapid.IntRange(1, 3).Draw(t, "nprog"); k < n; k++ {
				var prog *m.Program
				switch rapid.IntRange(0, 3).Draw(t, "kind") {
				case 0:
					prog = gen.BuildInherit(gen.GenInherit(t))
				case 1:
					prog = (&gen.G{T: t, C: gen.Cfg{Calls: true}}).IncludeProgram()
				case 2:
					prog = (&gen.G{T: t, C: gen.Cfg{Calls: true, ExprDepth: 2}}).MacroProgram()
				default:
					prog = (&gen.G{T: t, C: cfg}).Program()
				}
				ren := map[string]string{}
				for _, tp := range prog.Tpls {
					ren[tp.Name] = fmt.Sprintf("p%d_%s%s", k, tp.Name, rapid.SampledFrom(exts).Draw(t, "ext"))
				}
				renameTemplates(prog, ren)
				for n, s := range prog.Sources() {
					cs.Templates[n] = s
					entries = append(entries, n)
				}
			}
			// fixed feature templates: every evaluator arm, capturing construct and
			// failure path is executed by several goroutines at once
			cs.Templates["allops.html"] = c18AllOps
			cs.Templates["captures.html"] = c18Captures
			cs.Templates["failmacro.html"] = "a{% macro m(q) %}x{{ q }}{{ nosuchfunction() }}{% endmacro %}{% set c %}pre{{ _self.m(p) }}{% endset %}{{ c }}"
			cs.Templates["failfilter.js"] = "b{% filter nosuchfilter %}{{ p }}{% endfilter %}"
			cs.Templates["failinclude.txt"] = "c{% include 'missing-template' %}"
			cs.Templates["failparse.html"] = "d{% if p %}{{ p +"
			entries = append(entries, "allops.html", "allops.html", "captures.html", "captures.html", "failmacro.html", "failfilter.js", "failinclude.txt", "failparse.html")
			// templates that write the root scope: with a nil context map each
			// call still has a scope of its own
			cs.Templates["rootset_a.html"] = "{% set t = 'A' %}{% import 'rootlib.html' as la %}[{{ t }}{{ u }}{{ p }}]{{ la.m(1) }}"
			cs.Templates["rootset_b.txt"] = "{% set u = 'B' %}{% set p = 'q' %}[{{ u }}{{ t }}]{% for i in 1..3 %}{% set t = i %}{% endfor %}{{ t }}"
			cs.Templates["rootlib.html"] = "{% macro m(a) %}m{{ a }}{% endmacro %}"
			entries = append(entries, "rootset_a.html", "rootset_b.txt")
			// every filter of the Twig environment (two templates: the filters'
			// argument forms differ), on values of the call's own context
			cs.Templates["twigfilters.html"] = c18TwigFilters
			cs.Templates["twigfilters2.txt"] = c18TwigFilters2
			entries = append(entries, "twigfilters.html", "twigfilters2.txt", "twigfilters.html")
			// application data shared by all calls (each call has its own context
			// map, the settings map and the list inside are the same objects)
			cs.Shared = map[string]sb.V{
				"defaults":    {K: "hash", KS: []string{"lang"}, E: []sb.V{{K: "str", S: "en"}}},
				// (a list made with append: there is room behind its last element,
				// which nobody but its owner may write to)
				"shared_list": {K: "arrcap", E: []sb.V{{K: "num", N: 1}, {K: "str", S: "two"}}},
				"shared_per":  {K: "ptr", E: []sb.V{{K: "person", S: "Pat", N: 40}}},
			}
			cs.Templates["sharedcfg.html"] = "{% set o = defaults|merge({('k' ~ x): p}) %}{{ o|keys|sort|join(',') }}|{% for k, v in defaults %}{{ k }}={{ v }};{% endfor %}|{{ shared_list|merge([x])|join('+') }}|{{ shared_list|reverse|join }}|{{ shared_list|sort|join }}|{{ shared_per.Name }}{{ shared_per.Greet('hi ') }}|{{ defaults|length }}{{ shared_list|length }}"
			entries = append(entries, "sharedcfg.html", "sharedcfg.html")
			cs.Templates["payload.js"] = "var x = '{{ p }}';"
			cs.Templates["payload.html"] = "<b>{{ p }}</b>{% block a %}{{ p }}{% endblock %}"
			cs.Templates["payload.txt"] = "{{ p }}"
			entries = append(entries, "payload.js", "payload.html", "payload.txt")
			// a chain of 45 templates, each including or embedding the next: many
			// calls are deep inside it at the same time (anything that all calls
			// on one environment share - a budget, a stack, a cache - adds up)
			for k := 0; k < 45; k++ {
				next := "{{ p }}."
				if k < 44 {
					next = fmt.Sprintf("{%% include 'deep%d.html' %%}", k+1)
					if k%3 == 2 {
						next = fmt.Sprintf("{%% embed 'deep%d.html' %%}{%% block inner %%}e{{ parent() }}{%% endblock %%}{%% endembed %%}", k+1)
					}
				}
				cs.Templates[fmt.Sprintf("deep%d.html", k)] = fmt.Sprintf("%d(%s{%% block inner %%}i%d{%% endblock %%})", k, next, k)
			}
			entries = append(entries, "deep0.html", "deep20.html")
			sortStr(entries)
			n := rapid.SampledFrom([]int{2, 8, 8, 64}).Draw(t, "N")
			deep := rapid.IntRange(0, 5).Draw(t, "deep") == 0
			nilCtx := rapid.IntRange(0, 3).Draw(t, "nilctx") == 0
			for i := 0; i < n; i++ {
				call := sb.Call{Kind: rapid.SampledFrom([]string{"execute", "execute", "parse", "safe"}).Draw(t, "kind"),
					Entry: rapid.SampledFrom(entries).Draw(t, "entry"),
					Ctx:   map[string]sb.V{"p": {K: "str", S: "<'\"&" + fmt.Sprint(i)}, "x": {K: "num", N: float64(i)}, "sel": {K: "bool", B: true}, "when": {K: "time"}}}
				// in some workloads many calls pass a nil context map
				if nilCtx && rapid.Bool().Draw(t, "nil") {
					call.Ctx = nil
					if rapid.Bool().Draw(t, "rootset") {
						call.Entry = rapid.SampledFrom([]string{"rootset_a.html", "rootset_b.txt"}).Draw(t, "rs")
					}
				}
				if deep && i%4 != 3 {
					// most calls of this workload walk the whole chain
					call.Kind, call.Entry = "execute", "deep0.html"
				}
				cs.Calls = append(cs.Calls, call)
			}
			cs.Serial = rapid.IntRange(0, 4).Draw(t, "serial") == 0
			if rapid.IntRange(0, 2).Draw(t, "fs") == 0 {
				cs.Loader = "fs"
			}
			return cs
		})
	}
	Register(p)
	_ = os.Getenv
}

func keysOf(m map[string]bool) []string {
	var out []string
	for k := range m {
		out = append(out, k)
	}
	sortStr(out)
	return out
}

// raceSite names the two access sites of a race report (function names only).
func raceSite(report string) string {
	var sites []string
	lines := strings.Split(report, "\n")
	for i, l := range lines {
		if (strings.HasPrefix(l, "Write at") || strings.HasPrefix(l, "Read at") || strings.HasPrefix(l, "Previous write at") || strings.HasPrefix(l, "Previous read at")) && i+1 < len(lines) {
			f := strings.TrimSuffix(strings.TrimSpace(lines[i+1]), "()")
			f = strings.TrimPrefix(f, "github.com/tyler-sommer/")
			sites = append(sites, f)
		}
	}
	if len(sites) > 2 {
		sites = sites[:2]
	}
	return strings.Join(sites, "+")
}

// c18AllOps exercises every operator class, literal form, callback kind and
// loop / conditional form (values depend on the per-call variable x).
const c18AllOps = `{{ x + 1 }}{{ x - 1 }}{{ x * 2 }}{{ x / 4 }}{{ x // 3 }}{{ x % 3 }}{{ 2 ** 3 }}{{ p ~ x }}{{ x == 1 }}{{ x != 1 }}{{ x < 3 }}{{ x >= 3 }}` +
	`{{ x in [1, 2, 3] }}{{ x not in [4] }}{{ p starts with '<' }}{{ p ends with '7' }}{{ p matches '^<' }}{{ p matches '[0-9]+$' }}{{ 'ab' matches 'a.' }}{{ 'q' matches x ~ '' }}` +
	`{{ x b-and 3 }}{{ x b-or 4 }}{{ x b-xor 1 }}{{ not sel }}{{ sel and x }}{{ sel or x }}{{ sel ? 'y' : 'n' }}{{ -x }}{{ +x }}` +
	`{% for i in 1..3 %}{{ i }}{{ loop.index }}{{ loop.last }}{% for j in [x, 'k'] %}{{ loop.parent.index }}{{ j }}{% endfor %}{% else %}none{% endfor %}` +
	`{% for k, v in {a: x} if v %}{{ k }}{% endfor %}{{ "i#{x}j#{p}" }}{{ [1, x][1] }}{{ {k: x}.k }}{{ {k: x}['k'] }}` +
	`{{ cat(x, p, [x], {a: 1}) }}{{ x|wrap(1, 'z')|up }}{{ x is odd }}{{ x is not divisible by(3) }}{{ id(p)|fid }}{{ add(x, 2) }}{{ probe('x') }}{{ who() }}` +
	`{% if x > 100 %}a{% elseif x > 1 %}b{% else %}c{% endif %}{% set y = x * 2 %}{{ y }}{% do id(y) %}{# comment #}{% verbatim %}{{ raw }}{% endverbatim %}`

// c18TwigFilters applies every deterministic filter of the Twig environment.
const c18TwigFilters = `{{ when|date('jS F Y, l H:i:s') }}|{{ when|date('D, d M y S') }}|{{ when|date('Y-m-d') }}|{{ (0 - x)|abs }}|{{ nope|default(p) }}|{% for r in [1, 2, x, 4, 5]|batch(2, 'f') %}{{ r|join(',') }};{% endfor %}|` +
	`{{ p|capitalize }}|{{ [x, 'b']|first }}|{{ [x, 'b']|last }}|{{ 'ab'|first }}|{{ '%s-%d'|format(p, x) }}|{{ [1, x]|join('+') }}|{{ {a: x, b: [p]}|json_encode }}|{{ {k1: x}|keys|join }}|{{ [1, x, 3]|length }}|{{ p|length }}|{{ 'ABc'|lower }}|` +
	`{{ [1]|merge([x])|join }}|{{ "a\nb"|nl2br }}|{{ (x * 1234.5678)|number_format(2, ',', '.') }}|{{ p|raw }}|{{ 'hello %n%'|replace({'%n%': p}) }}|{{ [1, x, 3]|reverse|join }}|{{ 'abc'|reverse }}|{{ (x / 3)|round(2) }}|{{ (x / 3)|round(1, 'floor') }}`

const c18TwigFilters2 = `{{ [1, 2, x, 4]|slice(1, 2)|join }}|{{ 'abcdef'|slice(x % 3, 2) }}|{{ [3, x, 1]|sort|join }}|{{ 'a,b,' ~ x|split(',')|join('/') }}|{{ 'a,b,c'|split(',', 2)|length }}|{{ '<b>' ~ p ~ '</b>'|striptags }}|{{ 'the ' ~ x ~ ' apples'|title }}|` +
	`{{ '  ' ~ p ~ '  '|trim }}|{{ 'xx' ~ x ~ 'xx'|trim('x') }}|{{ 'abc'|upper }}|{{ p|url_encode }}|{{ {a: x, 'b c': p}|url_encode }}|{{ p|escape }}|{{ p|escape('js') }}|{{ when|date('S') }}{{ when|date('\\S\\t S') }}|{{ 'now'|date('Y') > 2000 }}|{{ x|date_modify('+1 day') }}|{{ p|convert_encoding('UTF-8', 'UTF-8') }}`

// c18Captures nests every capturing construct.
const c18Captures = `{% macro w(a, b) %}[{{ a }}|{{ b }}{% set in %}in{{ a }}{% endset %}{{ in }}]{% endmacro %}{% macro v(a) %}({{ _self.w(a, 'v') }}){% endmacro %}` +
	`{% block a %}A{{ x }}{% block b %}B{{ p }}{% endblock %}{% endblock %}head {% set c1 %}c1{{ _self.v(x) }}{% filter up|wrap %}f{{ p }}{% set c2 %}c2{{ block('b') }}{% endset %}{{ c2 }}{% endfilter %}{% endset %}` +
	`{{ c1 }} MID {{ block('a') }}{% for i in 1..2 %}{% set c3 %}{{ i }}{{ _self.w(i, c1) }}{% endset %}{{ c3 }}{% endfor %} tail`
