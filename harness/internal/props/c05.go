package props

import (
	"fmt"
	"strconv"
	"strings"

	"pgregory.net/rapid"
	"verif/internal/sb"

	"verif/internal/gen"
	m "verif/internal/model"
)

// C05: expressions evaluate to the documented values.

// exprStats computes depth, operator classes and callback arities.
func exprStats(e *m.E) (depth int, classes map[string]bool, maxCallArgs int) {
	classes = map[string]bool{}
	var rec func(e *m.E) int
	rec = func(e *m.E) int {
		d := 0
		for _, a := range e.A {
			if x := rec(a); x > d {
				d = x
			}
		}
		switch e.K {
		case "bin":
			classes["bin:"+opClass(e.S)] = true
		case "un":
			classes["un:"+e.S] = true
		case "cond", "interp", "arr", "hash", "attr", "idx", "filter", "test":
			classes[e.K] = true
		case "call":
			classes["call"] = true
		}
		if e.K == "call" || e.K == "filter" || e.K == "test" {
			if len(e.A) > maxCallArgs {
				maxCallArgs = len(e.A)
			}
		}
		if len(e.A) == 0 {
			return 0
		}
		return d + 1
	}
	depth = rec(e)
	return
}

func opClass(op string) string {
	switch op {
	case "+", "-", "*", "/", "//", "%", "**":
		return "arith"
	case "==", "!=", "<", "<=", ">", ">=":
		return "cmp"
	case "and", "or":
		return "logic"
	case "in", "not in":
		return "in"
	case "starts with", "ends with", "matches":
		return "strtest"
	case "b-and", "b-or", "b-xor":
		return "bitwise"
	}
	return op
}

func init() {
	p := &Property{
		ID:        "C05",
		Level:     "exploration",
		Technique: "property-based testing (rapid): typed expression generator vs an independent reference evaluator, comparing output and callback log",
		Rule: "typed expression trees (depth <= 5) over all operator classes inside the agreement region, operands from context variables carried by several Go types, " +
			"recording functions/filters/tests anywhere except under and/or right operands; oracle: reference evaluator output == stick output and predicted callback log == recorded log. " +
			"Non-trivial: some printed expression has depth >= 2 and >= 2 distinct operator classes, or a callback with >= 2 arguments; distinct by program. Also: non-numeric words tested for membership in lists and ranges of numbers; brace text around interpolations ({#{k}}); ordering comparisons of non-numeric strings; hashes with integer keys carried by map[int]T / map[uint8]T / map[int64]any reached by .N, [N] and ['N']; large instances (1500-operand chains, 1500-element literals and argument lists, 400 nested conditionals / parentheses).",
		Assumptions: []string{
			"the reference evaluator (internal/model) is written from the property statement and Twig documentation and is trusted inside the documented agreement region; cases leaving the region are discarded and counted",
		},
	}
	sub := NewSub(p, "expr", func(c *Ctx, cs *progCase) *Fail {
		res, _, f := compareModel(c, cs.P, compareOpts{})
		if res.Status == "discard" {
			return nil
		}
		nt := false
		labels := []string{"model:" + res.Status}
		m.Exprs(cs.P.Tpls[0].Body, func(e *m.E) {})
		for _, n := range cs.P.Tpls[0].Body {
			if n.X == nil {
				continue
			}
			d, cl, ca := exprStats(n.X)
			if (d >= 2 && len(cl) >= 2) || ca >= 2 {
				nt = true
			}
			for k := range cl {
				labels = append(labels, "op:"+k)
			}
		}
		for _, cv := range cs.P.Ctx {
			if cv.Carrier != "" {
				labels = append(labels, "carrier:"+cv.Carrier)
			}
		}
		c.Ev.Count(progKey(cs.P), nt, labels...)
		if nt {
			c.Ev.Sample(sampleProg(cs.P, res))
		}
		return f
	})
	grid := modelSub(p, "grid", compareOpts{}, func(cs *progCase, res *m.Result) bool { return true })
	// ordering of two strings: the language orders two strings that both spell
	// numbers as numbers and any other two strings as strings. For strings that
	// spell a number only up to blanks around it the readings differ between
	// implementations; the result must be the one of some reading (as numbers,
	// when both are numerals after trimming; as strings), in particular the
	// common answer where the readings agree.
	type ordCase struct {
		A, B, Op string
	}
	ordering := NewSub(p, "ordering", func(c *Ctx, cs *ordCase) *Fail {
		r := c.SB.Do(&sb.Req{Op: "exec", Env: "core", Loader: "string", Entry: "{{ (a " + cs.Op + " b) ? 'T' : 'F' }}", Ctx: map[string]sb.V{"a": {K: "str", S: cs.A}, "b": {K: "str", S: cs.B}}})
		if r.Fatal() || r.Status == "infra" {
			return fatalFail(r)
		}
		cmp := func(lt, eq bool) bool {
			switch cs.Op {
			case "<":
				return lt
			case "<=":
				return lt || eq
			case ">":
				return !lt && !eq
			}
			return !lt
		}
		accept := map[string]bool{}
		accept[map[bool]string{true: "T", false: "F"}[cmp(cs.A < cs.B, cs.A == cs.B)]] = true
		fa, ea := strconv.ParseFloat(strings.TrimSpace(cs.A), 64)
		fb, eb := strconv.ParseFloat(strings.TrimSpace(cs.B), 64)
		numeric := ea == nil && eb == nil
		if numeric {
			accept[map[bool]string{true: "T", false: "F"}[cmp(fa < fb, fa == fb)]] = true
		}
		key, _ := jsonStr(cs)
		c.Ev.Count(key, len(accept) == 1 && (cs.A != strings.TrimSpace(cs.A) || cs.B != strings.TrimSpace(cs.B)), "ordering", fmt.Sprintf("numeric:%v", numeric))
		if r.Status != "ok" || !accept[r.Out] {
			return &Fail{Sig: "ordering:no-reading-gives-this", Expected: fmt.Sprintf("one of %v for %q %s %q", accept, cs.A, cs.Op, cs.B), Observed: r.Status + " " + r.Out + r.Err}
		}
		return nil
	})
	p.Run = func(c *Ctx) {
		ordPool := []string{" 7", " 3", "7 ", "3 ", "7", "3", "10", "9", " 50", "\t12", "12\n", "abc", "ab", "", " ", "b"}
		oi := 0
		for _, a := range ordPool {
			for _, b := range ordPool {
				for _, op := range []string{"<", "<=", ">", ">="} {
					oi++
					if c.Mine(oi) {
						ordering.Check(c, &ordCase{A: a, B: b, Op: op})
					}
				}
			}
		}
		runScale(c, grid, "C05")
		// complete grid: every binary operator x every ordered pair of a value
		// pool, every unary operator x the pool, and the conditional; values
		// are observed through cat() so arrays and hashes are visible too.
		pool := []*m.E{m.ENum(0), m.ENum(1), m.ENum(2), m.ENum(3), m.ENum(7), m.ENum(0.5), m.ENum(2.25),
			m.EStr("a"), m.EStr("ab"), m.EStr("b"), m.EStr(""), m.EBool(true), m.EBool(false), m.ENull(),
			m.EArr(m.ENum(1), m.ENum(2)), m.EArr(m.EStr("a")), m.EArr(),
			&m.E{K: "hash", KS: []*m.E{m.EName("k0")}, A: []*m.E{m.ENum(1)}}, m.EName("i0"), m.EName("s0"), m.EName("an0")}
		names := m.Val{K: m.KHash}
		names.HashSet("1", m.Str("one"))
		names.HashSet("2", m.Str("two"))
		names.HashSet("10", m.Str("ten"))
		ctx := []*m.CtxVar{{Name: "i0", V: m.Num(4), Carrier: "int"}, {Name: "s0", V: m.Str("abc")}, {Name: "an0", V: m.Arr(m.Num(2), m.Num(4)), Carrier: "slice"},
			// hashes with integer keys, as a hash, and as Go maps keyed by integer types
			{Name: "hn0", V: names}, {Name: "hn1", V: names, Carrier: "map:int:str"}, {Name: "hn2", V: names, Carrier: "map:uint8:str"}, {Name: "hn3", V: names, Carrier: "map:int64:any"}}
		one := func(e *m.E) *progCase {
			return &progCase{P: &m.Program{Env: "core", Loader: "memory", Entry: "main", Ctx: ctx,
				Tpls: []*m.Tpl{{Name: "main", Body: []*m.N{m.NPrint(m.ECall("cat", e))}}}}}
		}
		binops := []string{"or", "and", "b-or", "b-xor", "b-and", "==", "!=", "<", "<=", ">", ">=", "not in", "in", "matches",
			"starts with", "ends with", "..", "+", "-", "~", "*", "/", "//", "%", "**"}
		idx := 0
		done := true
		for _, op := range binops {
			for _, l := range pool {
				for _, r := range pool {
					idx++
					if c.Mine(idx) && !grid.Check(c, one(m.EBin(op, l, r))) {
						done = false
					}
				}
			}
		}
		for _, u := range []string{"not", "-", "+"} {
			for _, x := range pool {
				idx++
				if c.Mine(idx) && !grid.Check(c, one(m.EUn(u, x))) {
					done = false
				}
			}
		}
		for _, cnd := range pool {
			idx++
			if c.Mine(idx) && !grid.Check(c, one(m.ECond(cnd, m.EStr("T"), m.EStr("F")))) {
				done = false
			}
		}
		// access forms over nested literals: chains of .key, .N and [key] in
		// every order, nested hash literals, membership in strings
		h := func(kv ...interface{}) *m.E {
			e := &m.E{K: "hash"}
			for i := 0; i < len(kv); i += 2 {
				e.KS = append(e.KS, m.EName(kv[i].(string)))
				e.A = append(e.A, kv[i+1].(*m.E))
			}
			return e
		}
		rows := m.EArr(h("name", m.EStr("N"), "tags", m.EArr(m.EStr("x"), m.EStr("y"))), h("name", m.EStr("M"), "deep", h("er", h("est", m.ENum(9)))))
		grids := m.EArr(m.EArr(m.ENum(1), m.ENum(2)), m.EArr(m.ENum(3), m.ENum(4)))
		forms := []*m.E{
			m.EAttr(m.EAttr(rows, "0"), "name"), m.EAttr(m.EIdx(rows, m.ENum(0)), "name"), m.EIdx(m.EAttr(rows, "1"), m.EStr("name")),
			m.EAttr(m.EAttr(m.EAttr(rows, "0"), "tags"), "1"), m.EIdx(m.EAttr(m.EAttr(rows, "0"), "tags"), m.ENum(0)),
			m.EAttr(m.EAttr(m.EAttr(m.EAttr(rows, "1"), "deep"), "er"), "est"), m.EAttr(m.EAttr(grids, "1"), "0"), m.EIdx(m.EIdx(grids, m.ENum(1)), m.ENum(0)),
			m.EAttr(m.EIdx(grids, m.ENum(0)), "1"), m.EIdx(m.EAttr(grids, "0"), m.ENum(1)), m.EAttr(m.EAttr(m.EName("an0"), "0"), "x"),
			m.EAttr(m.EAttr(h("a", h("b", m.ENum(1))), "a"), "b"), h("a", h("b", h("c", m.ENum(1)))), m.EArr(h("a", h()), h()),
		}
		// attribute names that are also operator words
		for _, w := range []string{"in", "is", "not", "and", "or", "matches", "none", "null", "true", "false"} {
			hw := &m.E{K: "hash", KS: []*m.E{m.EStr(w)}, A: []*m.E{m.EStr("v-" + w)}}
			forms = append(forms, m.EAttr(hw, w), m.EBin("~", m.EAttr(hw, w), m.EStr("!")), m.EBin("in", m.EAttr(hw, w), m.EArr(m.EStr("v-"+w))))
		}
		// the same words written bare as hash keys are names, too
		for _, w := range []string{"none", "null", "true", "false"} {
			hb := &m.E{K: "hash", KS: []*m.E{m.EName(w), m.EName("other")}, A: []*m.E{m.EStr("v-" + w), m.EStr("o")}}
			forms = append(forms, m.EAttr(hb, w), m.EIdx(hb, m.EStr(w)), m.EBin("~", m.EAttr(hb, w), m.EAttr(hb, "other")))
		}
		for _, hay := range []string{"abc", "", "a b"} {
			for _, nd := range []string{"a", "bc", "x", "", "abc", " "} {
				forms = append(forms, m.EBin("in", m.EStr(nd), m.EStr(hay)), m.EBin("not in", m.EStr(nd), m.EStr(hay)))
			}
		}
		forms = append(forms, m.EBin("in", m.EStr("b"), m.EName("s0")), m.EBin("in", m.EName("s0"), m.EStr("xabcx")))
		// numbers of a million and more, integral or not, are written in positional notation
		forms = append(forms, m.ENum(1234567.5), m.EBin("+", m.ENum(1000000), m.ENum(0.5)), m.EBin("~", m.EStr("x"), m.ENum(1234567.89)), m.ENum(99999999.25),
			m.EBin("*", m.ENum(1234567.5), m.ENum(2)), m.EBin("/", m.ENum(12345678), m.ENum(8)), m.ENum(123456789012.5), m.EBin("-", m.ENum(0.5), m.ENum(2000000)))
		for _, hn := range []string{"hn0", "hn1", "hn2", "hn3"} {
			forms = append(forms, m.EAttr(m.EName(hn), "1"), m.EIdx(m.EName(hn), m.ENum(2)), m.EIdx(m.EName(hn), m.EStr("10")), m.EIdx(m.EName(hn), m.EName("i0")),
				m.EIdx(m.EName(hn), m.EBin("~", m.EStr("1"), m.EStr("0"))), m.EBin("~", m.EAttr(m.EName(hn), "2"), m.EAttr(m.EName(hn), "10")))
		}
		for _, f := range forms {
			idx++
			if c.Mine(idx) && !grid.Check(c, one(f)) {
				done = false
			}
		}
		c.Ev.S.Exhaustive["operator_x_operand_pair_grid"] = done
		cfg := gen.Cfg{ExprDepth: 5, BodyLen: 2, Nest: 0, Calls: true, Carriers: true, NestInterp: true}
		sub.Rapid(c, c.Share(c.Pick(24000, 1600000)), func(t *rapid.T) *progCase {
			g := &gen.G{T: t, C: cfg}
			return &progCase{P: g.Program()}
		})
		// the same expression node evaluated repeatedly with changing operands
		// (loop bodies): stale per-node state in the evaluator shows up here
		cfgLoop := gen.Cfg{ExprDepth: 4, BodyLen: 3, Nest: 2, Calls: true, Carriers: true, For: true, If: true}
		sub.Rapid(c, c.Share(c.Pick(8000, 400000)), func(t *rapid.T) *progCase {
			g := &gen.G{T: t, C: cfgLoop}
			return &progCase{P: g.Program()}
		})
	}
	Register(p)
}
