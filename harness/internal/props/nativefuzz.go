package props

import (
	"fmt"
	"os"
	"os/exec"
	"path/filepath"
	"regexp"
	"strconv"
	"strings"
	"time"
)

// nativeFuzz runs one native `go test -fuzz` campaign (thorough tier, shard 0
// only) and returns the inputs of the crashers it saved plus the side files the
// target wrote. The Go fuzzer cannot be seeded and stops at the first crasher;
// the saved input is the reproducible unit and is re-checked through the
// sandbox by the caller before anything is reported.
func nativeFuzz(c *Ctx, target string, seconds int) (inputs [][]byte, sideFiles []string) {
	harness := filepath.Join(Root, "harness")
	work := filepath.Join(Root, "work", fmt.Sprintf("fuzz-%s-%d", target, os.Getpid()))
	cases := filepath.Join(work, "cases")
	os.MkdirAll(cases, 0o755)
	defer os.RemoveAll(work)
	tdir := filepath.Join(harness, "fuzz", "testdata", "fuzz", target)
	os.RemoveAll(tdir)
	cmd := exec.Command("go", "test", "./fuzz", "-run=^$", "-fuzz=^"+target+"$", fmt.Sprintf("-fuzztime=%ds", seconds),
		"-test.fuzzcachedir="+filepath.Join(work, "cache"))
	cmd.Dir = harness
	cmd.Env = append(os.Environ(), "GOFLAGS=-mod=mod", "GOPROXY=off", "GOSUMDB=off", "GOTOOLCHAIN=local", "VERIF_FUZZ_CASES="+cases)
	done := make(chan []byte, 1)
	go func() { out, _ := cmd.CombinedOutput(); done <- out }()
	var out []byte
	select {
	case out = <-done:
	case <-time.After(time.Duration(seconds+180) * time.Second):
		if cmd.Process != nil {
			cmd.Process.Kill()
		}
		out = <-done
	}
	if m := regexp.MustCompile(`execs: (\d+)`).FindAllStringSubmatch(string(out), -1); len(m) > 0 {
		n, _ := strconv.ParseInt(m[len(m)-1][1], 10, 64)
		c.Ev.Label("native-fuzz-execs:"+target, n)
	}
	files, _ := filepath.Glob(filepath.Join(tdir, "*"))
	for _, f := range files {
		b, err := os.ReadFile(f)
		if err != nil {
			continue
		}
		if in, ok := parseCorpusFile(string(b)); ok {
			inputs = append(inputs, in)
		}
		os.Remove(f)
	}
	os.RemoveAll(filepath.Join(harness, "fuzz", "testdata"))
	cf, _ := filepath.Glob(filepath.Join(cases, "*.json"))
	for _, f := range cf {
		if b, err := os.ReadFile(f); err == nil {
			sideFiles = append(sideFiles, string(b))
		}
	}
	c.Ev.Label("native-fuzz-crashers:"+target, int64(len(inputs)+len(sideFiles)))
	return inputs, sideFiles
}

// parseCorpusFile decodes a "go test fuzz v1" corpus file with one []byte value.
func parseCorpusFile(s string) ([]byte, bool) {
	lines := strings.Split(strings.TrimSpace(s), "\n")
	if len(lines) < 2 || !strings.HasPrefix(lines[0], "go test fuzz v1") {
		return nil, false
	}
	l := strings.TrimSpace(lines[1])
	if !strings.HasPrefix(l, "[]byte(") || !strings.HasSuffix(l, ")") {
		return nil, false
	}
	q, err := strconv.Unquote(l[len("[]byte(") : len(l)-1])
	if err != nil {
		return nil, false
	}
	return []byte(q), true
}
