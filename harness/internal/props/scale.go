package props

import (
	"fmt"
	"strings"

	m "verif/internal/model"
)

// Large instances: fixed, deterministic program families that stretch one
// dimension (iterations, siblings, nesting, chain length, argument count) far
// beyond what the random generators draw, checked against the same reference
// evaluator. They target invariants that hold for 1, 2, 3 and break at a width
// or capacity boundary (255/256, 1024, 65536, slice growth).

func numRange(a, b int) *m.E { return m.EBin("..", m.ENum(float64(a)), m.ENum(float64(b))) }

func prog1(name string, body []*m.N, ctx ...*m.CtxVar) *m.Program {
	return &m.Program{Env: "core", Loader: "memory", Entry: name, Tpls: []*m.Tpl{{Name: name, Body: body}}, Ctx: ctx}
}

func loopAttr(f string) *m.E { return m.EAttr(m.EName("loop"), f) }

func scalePrograms(id string, quick bool) []*m.Program {
	var out []*m.Program
	sizes := []int{255, 256, 257, 1023, 1025, 4097}
	if !quick {
		sizes = append(sizes, 65535, 65537, 200000)
	}
	switch id {
	case "C06":
		for _, n := range sizes {
			// long loop with every metadata field
			body := []*m.N{m.NPrint(m.EName("i")), m.NText(":"), m.NPrint(loopAttr("index")), m.NText("/"), m.NPrint(loopAttr("revindex0")), m.NText("/"), m.NPrint(loopAttr("length")),
				{K: "if", X: loopAttr("last"), Body: []*m.N{m.NText("L")}}, {K: "if", X: loopAttr("first"), Body: []*m.N{m.NText("F")}}, m.NText(",")}
			out = append(out, prog1("main", []*m.N{{K: "for", S: "i", X: numRange(1, n), Body: body}}))
			// inline condition keeping every 7th element, with an else branch
			out = append(out, prog1("main", []*m.N{{K: "for", S: "i", X: numRange(1, n), Y: m.EBin("==", m.EBin("%", m.EName("i"), m.ENum(7)), m.ENum(0)),
				Body: []*m.N{m.NPrint(m.EName("i")), m.NText(",")}, HasElse: true, Else: []*m.N{m.NText("none")}}}))
		}
		// nesting 2^d iterations, loop.parent chain printed at the bottom
		for _, d := range []int{6, 9, 12} {
			var inner []*m.N
			e := m.EName("loop")
			for k := 0; k < d; k++ {
				inner = append(inner, m.NPrint(m.EAttr(e, "index")))
				e = m.EAttr(e, "parent")
			}
			inner = append(inner, m.NText(" "))
			body := inner
			for k := d - 1; k >= 0; k-- {
				body = []*m.N{{K: "for", S: fmt.Sprintf("v%d", k), X: numRange(1, 2), Body: body}}
			}
			out = append(out, prog1("main", body))
		}
		// a long if / elseif ladder, each arm taken once
		n := 300
		ifn := &m.N{K: "if", X: m.EBin("==", m.EName("i"), m.ENum(0)), Body: []*m.N{m.NText("a0")}, HasElse: true, Else: []*m.N{m.NText("else")}}
		for k := 1; k < n; k++ {
			ifn.Elifs = append(ifn.Elifs, &m.Elif{Cond: m.EBin("==", m.EName("i"), m.ENum(float64(k))), Body: []*m.N{m.NText(fmt.Sprintf("a%d", k))}})
		}
		out = append(out, prog1("main", []*m.N{{K: "for", S: "i", X: numRange(0, n), Body: []*m.N{ifn, m.NText(",")}}}))
	case "C07":
		// many variables, updated from inside loops and ifs at several depths
		for _, n := range []int{64, 300, 1100} {
			var body []*m.N
			for k := 0; k < n; k++ {
				body = append(body, &m.N{K: "set", S: fmt.Sprintf("v%d", k), X: m.ENum(float64(k))})
			}
			var upd []*m.N
			for k := 0; k < n; k += 3 {
				upd = append(upd, &m.N{K: "set", S: fmt.Sprintf("v%d", k), X: m.EBin("+", m.EName(fmt.Sprintf("v%d", k)), m.EName("i"))})
			}
			body = append(body, &m.N{K: "for", S: "i", X: numRange(1, 3), Body: []*m.N{{K: "if", X: m.EBool(true), Body: upd}, {K: "set", S: "fresh", X: m.EName("i")}}})
			for k := 0; k < n; k++ {
				body = append(body, m.NPrint(m.EName(fmt.Sprintf("v%d", k))), m.NText(","))
			}
			body = append(body, m.NPrint(m.ECall("probe", m.EStr("fresh"))), m.NPrint(m.ECall("probe", m.EStr("i"))))
			out = append(out, prog1("main", body))
		}
		// deep nesting of loops that all use the same variable name
		for _, d := range []int{10, 40, 120} {
			body := []*m.N{m.NPrint(m.EName("x")), m.NPrint(m.ECall("probe", m.EStr("x")))}
			for k := d; k >= 1; k-- {
				body = []*m.N{m.NText("("), {K: "for", S: "x", X: m.EArr(m.ENum(float64(k))), Body: body}, m.NPrint(m.EName("x")), m.NText(")")}
			}
			out = append(out, prog1("main", append([]*m.N{{K: "set", S: "x", X: m.EStr("top")}}, body...)))
		}
	case "C03":
		for _, n := range []int{300, 3000} {
			var body []*m.N
			for k := 0; k < n; k++ {
				body = append(body, m.NText(fmt.Sprintf("t%d{ %%}é\n", k)))
				switch k % 4 {
				case 0:
					body = append(body, &m.N{K: "comment", S: fmt.Sprintf(" c%d {{ x }} ", k)})
				case 1:
					body = append(body, &m.N{K: "verbatim", S: fmt.Sprintf("{{ v%d }}{%% if %%}", k)})
				case 2:
					body = append(body, m.NPrint(m.ENum(float64(k))))
				}
			}
			out = append(out, prog1("main", body))
		}
		// one very long text run around a single print, and a long comment
		long := strings.Repeat("0123456789abcdef{ } % # é\r\n", 20000)
		out = append(out, prog1("main", []*m.N{m.NText(long), m.NPrint(m.ENum(1)), {K: "comment", S: long[:300000]}, m.NText(long[:100001])}))
		out = append(out, prog1("main", []*m.N{{K: "verbatim", S: long[:400003]}, m.NText("x")}))
	case "C05":
		// long operator chains, wide literals, many arguments
		for _, n := range []int{200, 1500} {
			cat := m.EStr("s")
			sum := m.ENum(0)
			for k := 1; k <= n; k++ {
				cat = m.EBin("~", cat, m.ENum(float64(k%10)))
				sum = m.EBin("+", sum, m.ENum(float64(k)))
			}
			arr := m.EArr()
			h := &m.E{K: "hash"}
			var args []*m.E
			for k := 0; k < n; k++ {
				arr.A = append(arr.A, m.ENum(float64(k)))
				h.KS = append(h.KS, m.EStr(fmt.Sprintf("k%d", k)))
				h.A = append(h.A, m.ENum(float64(k)))
				args = append(args, m.ENum(float64(k%7)))
			}
			out = append(out, prog1("main", []*m.N{m.NPrint(cat), m.NText("|"), m.NPrint(sum), m.NText("|"), m.NPrint(m.EIdx(arr, m.ENum(float64(n-1)))), m.NText("|"),
				m.NPrint(m.EAttr(h, fmt.Sprintf("k%d", n-1))), m.NText("|"), m.NPrint(m.ECall("cat", args...)), m.NText("|"), m.NPrint(m.EBin("in", m.ENum(float64(n-1)), arr))}))
		}
		// nested conditionals and parentheses
		for _, d := range []int{50, 400} {
			e := m.ENum(1)
			c := m.EStr("leaf")
			for k := 0; k < d; k++ {
				e = &m.E{K: "group", A: []*m.E{m.EBin("+", e, m.ENum(1))}}
				c = m.ECond(m.EBool(k%2 == 0), c, m.EStr("no"))
			}
			out = append(out, prog1("main", []*m.N{m.NPrint(e), m.NText("|"), m.NPrint(c)}))
		}
	case "C08":
		// deeply nested captures and filter sections; large captured text
		for _, d := range []int{20, 150} {
			body := []*m.N{m.NText("core"), m.NPrint(m.ENum(7))}
			for k := 0; k < d; k++ {
				name := fmt.Sprintf("c%d", k)
				if k%3 == 2 {
					body = []*m.N{{K: "filter", Names: []string{"wrap"}, Body: body}}
				} else {
					body = []*m.N{{K: "setcap", S: name, Body: body}, m.NText("<"), m.NPrint(m.EName(name)), m.NText(">")}
				}
			}
			out = append(out, prog1("main", body))
		}
		big := strings.Repeat("chunk é{ %\n", 30000)
		out = append(out, prog1("main", []*m.N{{K: "setcap", S: "big", Body: []*m.N{m.NText(big), m.NPrint(m.ENum(1))}}, m.NPrint(m.EFilter("fid", m.EName("big"))), m.NText("|"),
			{K: "filter", Names: []string{"fid", "wrap"}, Body: []*m.N{m.NText(big)}}}))
		// many sibling captures
		var sib []*m.N
		for k := 0; k < 1200; k++ {
			sib = append(sib, &m.N{K: "setcap", S: fmt.Sprintf("s%d", k%50), Body: []*m.N{m.NText(fmt.Sprintf("v%d", k))}})
			if k%50 == 49 {
				sib = append(sib, m.NPrint(m.EName(fmt.Sprintf("s%d", (k/50)%50))), m.NText(","))
			}
		}
		out = append(out, prog1("main", sib))
	case "C09":
		// long chains: every level overrides a and calls parent(); b only at some levels; c never
		for _, l := range []int{8, 17, 40} {
			p := &m.Program{Env: "core", Loader: "memory", Entry: "t0"}
			for i := 0; i < l; i++ {
				t := &m.Tpl{Name: fmt.Sprintf("t%d", i)}
				last := i == l-1
				if !last {
					t.Body = append(t.Body, &m.N{K: "extends", X: m.EStr(fmt.Sprintf("t%d", i+1))})
					t.Body = append(t.Body, &m.N{K: "block", S: "a", Body: []*m.N{m.NText(fmt.Sprintf("a%d(", i)), m.NPrint(&m.E{K: "parent"}), m.NPrint(m.ECall("who")), m.NText(")")}})
					if i%3 == 1 {
						t.Body = append(t.Body, &m.N{K: "block", S: "b", Body: []*m.N{m.NText(fmt.Sprintf("b%d[", i)), m.NPrint(&m.E{K: "parent"}), m.NText("]")}})
					}
				} else {
					t.Body = []*m.N{m.NText("ROOT:"), {K: "block", S: "a", Body: []*m.N{m.NText("a-root")}}, m.NText("|"), {K: "block", S: "b", Body: []*m.N{m.NText("b-root")}}, m.NText("|"),
						{K: "block", S: "c", Body: []*m.N{m.NText("c-root"), m.NPrint(m.ECall("who"))}}, m.NText("|"), m.NPrint(&m.E{K: "blockfn", A: []*m.E{m.EStr("a")}})}
				}
				p.Tpls = append(p.Tpls, t)
			}
			out = append(out, p)
		}
		// many blocks in one pair of templates
		for _, n := range []int{100, 700} {
			base := &m.Tpl{Name: "base"}
			child := &m.Tpl{Name: "child", Body: []*m.N{{K: "extends", X: m.EStr("base")}}}
			for k := 0; k < n; k++ {
				name := fmt.Sprintf("blk%d", k)
				base.Body = append(base.Body, &m.N{K: "block", S: name, Body: []*m.N{m.NText(fmt.Sprintf("B%d", k))}}, m.NText(","))
				if k%2 == 0 {
					child.Body = append(child.Body, &m.N{K: "block", S: name, Body: []*m.N{m.NText(fmt.Sprintf("C%d<", k)), m.NPrint(&m.E{K: "parent"}), m.NText(">")}})
				}
			}
			out = append(out, &m.Program{Env: "core", Loader: "memory", Entry: "child", Tpls: []*m.Tpl{base, child}})
		}
	case "C10":
		// include chains and many includes with per-call variables
		for _, d := range []int{10, 60} {
			p := &m.Program{Env: "core", Loader: "memory", Entry: "i0", Ctx: []*m.CtxVar{{Name: "x", V: m.Str("X")}}}
			for i := 0; i <= d; i++ {
				t := &m.Tpl{Name: fmt.Sprintf("i%d", i)}
				if i < d {
					h := &m.E{K: "hash", KS: []*m.E{m.EStr("n")}, A: []*m.E{m.ENum(float64(i))}}
					t.Body = []*m.N{m.NText(fmt.Sprintf("(%d", i)), m.NPrint(m.ECall("cat", m.EName("x"), m.EName("n"))), {K: "include", X: m.EStr(fmt.Sprintf("i%d", i+1)), Y: h, Only: i%4 == 3},
						m.NPrint(m.ECall("cat", m.EName("n"))), m.NText(")")}
				} else {
					t.Body = []*m.N{m.NText("leaf"), m.NPrint(m.ECall("cat", m.EName("x"), m.EName("n"))), m.NPrint(m.ECall("who"))}
				}
				p.Tpls = append(p.Tpls, t)
			}
			out = append(out, p)
		}
		for _, n := range []int{300, 2000} {
			item := &m.Tpl{Name: "item", Body: []*m.N{m.NText("["), m.NPrint(m.EName("i")), m.NPrint(m.EName("k")), {K: "set", S: "i", X: m.ENum(-1)}, m.NText("]")}}
			h := &m.E{K: "hash", KS: []*m.E{m.EStr("k")}, A: []*m.E{m.EBin("*", m.EName("i"), m.ENum(2))}}
			host := &m.Tpl{Name: "host", Body: []*m.N{{K: "for", S: "i", X: numRange(1, n), Body: []*m.N{{K: "include", X: m.EStr("item"), Y: h}, m.NPrint(m.EName("i")), m.NText(",")}},
				m.NPrint(m.ECall("probe", m.EStr("k")))}}
			out = append(out, &m.Program{Env: "core", Loader: "memory", Entry: "host", Tpls: []*m.Tpl{item, host}})
		}
	case "C11":
		// many macros, many parameters, many calls
		for _, n := range []int{120, 900} {
			lib := &m.Tpl{Name: "lib"}
			main := &m.Tpl{Name: "main", Body: []*m.N{{K: "import", X: m.EStr("lib"), S: "mm"}}}
			from := &m.N{K: "from", X: m.EStr("lib")}
			for k := 0; k < n; k++ {
				name := fmt.Sprintf("mac%d", k)
				lib.Body = append(lib.Body, &m.N{K: "macro", S: name, Names: []string{"a", "b"}, Body: []*m.N{m.NText(fmt.Sprintf("%d(", k)), m.NPrint(m.ECall("cat", m.EName("a"), m.EName("b"))), m.NText(")")}})
				if k%5 == 0 {
					from.Pairs = append(from.Pairs, [2]string{name, "f" + name})
				}
			}
			main.Body = append(main.Body, from)
			for k := 0; k < n; k++ {
				name := fmt.Sprintf("mac%d", k)
				main.Body = append(main.Body, m.NPrint(&m.E{K: "mcall", S: name, T: "alias", U: "mm", A: []*m.E{m.ENum(float64(k))}}))
				if k%5 == 0 {
					main.Body = append(main.Body, m.NPrint(&m.E{K: "mcall", S: name, T: "from", U: "f" + name, A: []*m.E{m.ENum(1), m.ENum(2), m.ENum(3)}}))
				}
			}
			out = append(out, &m.Program{Env: "core", Loader: "memory", Entry: "main", Tpls: []*m.Tpl{lib, main}})
		}
		for _, np := range []int{16, 70} {
			mac := &m.N{K: "macro", S: "wide"}
			var args, part []*m.E
			for k := 0; k < np; k++ {
				mac.Names = append(mac.Names, fmt.Sprintf("p%d", k))
				mac.Body = append(mac.Body, m.NPrint(m.ECall("cat", m.EName(fmt.Sprintf("p%d", k)))))
				args = append(args, m.ENum(float64(k)))
				if k < np/2 {
					part = append(part, m.EStr(fmt.Sprintf("s%d", k)))
				}
			}
			over := append(append([]*m.E{}, args...), m.ENum(99), m.ENum(100))
			out = append(out, prog1("main", []*m.N{mac, m.NPrint(&m.E{K: "mcall", S: "wide", T: "self", A: args}), m.NText("|"), m.NPrint(&m.E{K: "mcall", S: "wide", T: "self", A: part}), m.NText("|"),
				m.NPrint(&m.E{K: "mcall", S: "wide", T: "self", A: over}), m.NText("|"), {K: "for", S: "i", X: numRange(1, 400), Body: []*m.N{m.NPrint(&m.E{K: "mcall", S: "wide", T: "self", A: []*m.E{m.EName("i")}})}}}))
		}
	}
	return out
}

// runScale checks the large instances of a property (split over the shards).
func runScale(c *Ctx, sub *Sub[progCase], id string) {
	progs := scalePrograms(id, c.Quick())
	done := 0
	for i, p := range progs {
		if !c.Mine(i) || sub.Failed(c) {
			continue
		}
		p.Large = true
		sub.Check(c, &progCase{P: p})
		c.Ev.Label("large-instance", 1)
		done++
	}
	c.Ev.S.Exhaustive[fmt.Sprintf("large_instances_%s(%d)", id, len(progs))] = !c.Expired() && !sub.Failed(c)
}
