package props

import (
	"fmt"
	"sort"
	"strings"

	"pgregory.net/rapid"

	"verif/internal/gen"
	m "verif/internal/model"
	"verif/internal/sb"
)

// C14: formatting inside delimiters does not change meaning.

type c14Case struct {
	P *m.Program `json:"p"`
	// Q is the same program with the AST-level spelling attributes applied
	// (quote style, trailing commas, '-' markers); nil = P. The canonical
	// observation always comes from P.
	Q *m.Program `json:"q,omitempty"`
	// Ws[template][token index] is the whitespace written before that token
	// (only for tokens inside delimiters; absent = canonical).
	Ws map[string]map[int]string `json:"ws"`
}

var c14Spaces = []string{"", " ", "  ", "\t", "\n", "\r\n", " \n ", "\r", "\t "}

func c14Sources(cs *c14Case) (canon, respelt map[string]string, changed, hard int) {
	canon, respelt = map[string]string{}, map[string]string{}
	q := cs.Q
	if q == nil {
		q = cs.P
	}
	for ti, t := range q.Tpls {
		c, _ := m.Join(m.Tokens(cs.P.Tpls[ti].Body), nil)
		canon[t.Name] = c
		toks := m.Tokens(t.Body)
		if c2, _ := m.Join(toks, nil); c2 != c {
			changed++
			hard++
		}
		ws := cs.Ws[t.Name]
		r, _ := m.Join(toks, func(i int, can string, must bool) string {
			w, ok := ws[i]
			if !ok {
				return can
			}
			if must && w == "" {
				w = " "
			}
			if w != can {
				changed++
				if w == "" || strings.ContainsAny(w, "\t\n\r") {
					hard++
				}
			}
			return w
		})
		respelt[t.Name] = r
	}
	return
}

// respell draws a spelling for a program: whitespace per boundary, quote
// styles, trailing commas and '-' markers.
func c14Respell(t *rapid.T, p *m.Program) *c14Case {
	cs := &c14Case{P: p, Q: cloneProg(p), Ws: map[string]map[int]string{}}
	density := rapid.IntRange(1, 4).Draw(t, "density")
	for _, tp := range cs.Q.Tpls {
		// AST-level spellings
		exprsOutsideInterp(tp.Body, func(e *m.E) {
			switch e.K {
			case "str":
				if !strings.ContainsAny(e.S, "'\"\\") && !strings.Contains(e.S, "#{") && rapid.IntRange(0, 2).Draw(t, "quote") == 0 {
					e.Q = "\""
				}
			case "arr", "hash":
				if len(e.A) > 0 && rapid.IntRange(0, 2).Draw(t, "comma") == 0 {
					e.Comma = true
				}
			}
		})
		markTrims(t, tp.Body)
		toks := m.Tokens(tp.Body)
		ws := map[int]string{}
		for i, tk := range toks {
			if !tk.In || i == 0 {
				continue
			}
			if rapid.IntRange(0, density).Draw(t, "touch") == 0 {
				ws[i] = rapid.SampledFrom(c14Spaces).Draw(t, "ws")
			}
		}
		cs.Ws[tp.Name] = ws
	}
	return cs
}

func isWS(c byte) bool { return c == ' ' || c == '\t' || c == '\n' || c == '\r' }

// markTrims adds '-' markers to delimiters that have no adjacent whitespace.
func markTrims(t *rapid.T, ns []*m.N) {
	for i, n := range ns {
		switch n.K {
		case "print", "set", "do", "include", "extends", "use", "import", "from", "verbatim":
			if rapid.IntRange(0, 4).Draw(t, "trim") == 0 {
				prevWS := i > 0 && ns[i-1].K == "text" && ns[i-1].S != "" && isWS(ns[i-1].S[len(ns[i-1].S)-1])
				nextWS := i+1 < len(ns) && ns[i+1].K == "text" && ns[i+1].S != "" && isWS(ns[i+1].S[0])
				if i > 0 && ns[i-1].K == "verbatim" {
					prevWS = true
				}
				if !prevWS {
					n.TrimL = true
				}
				if !nextWS {
					n.TrimR = true
				}
				if n.K == "verbatim" {
					n.TrimI = rapid.Bool().Draw(t, "trimi")
				}
			}
		}
		markTrims(t, n.Body)
		for _, el := range n.Elifs {
			markTrims(t, el.Body)
		}
		markTrims(t, n.Else)
		markTrims(t, n.Blocks)
	}
}

func c14Exemplars() []*m.Program {
	one := func(body ...*m.N) *m.Program {
		return &m.Program{Env: "core", Loader: "memory", Tpls: []*m.Tpl{{Name: "main", Body: body}, {Name: "other", Body: []*m.N{m.NText("O["), {K: "block", S: "a", Body: []*m.N{m.NText("oa")}}, m.NPrint(m.ECall("cat", m.EName("x"))), m.NText("]")}},
			{Name: "lib", Body: []*m.N{{K: "macro", S: "mm", Names: []string{"p", "q"}, Body: []*m.N{m.NText("M("), m.NPrint(m.EName("p")), m.NPrint(m.EName("q")), m.NText(")")}}}}},
			Entry: "main", Ctx: []*m.CtxVar{{Name: "x", V: m.Num(3)}, {Name: "s", V: m.Str("ab")}, {Name: "arr", V: m.Arr(m.Num(1), m.Num(2))}, {Name: "b", V: m.Bool(true)}}}
	}
	pr := func(e *m.E) *m.Program { return one(m.NText("<"), m.NPrint(e), m.NText(">")) }
	x, s := m.EName("x"), m.EName("s")
	hash := &m.E{K: "hash", KS: []*m.E{m.EName("k"), m.EStr("j")}, A: []*m.E{m.ENum(1), m.EStr("v")}}
	var out []*m.Program
	// expression forms
	for _, op := range []string{"+", "-", "*", "/", "//", "%", "**", "~", "==", "!=", "<", "<=", ">", ">=", "and", "or", "b-and", "b-or", "b-xor", "in", "not in", "starts with", "ends with", "matches", ".."} {
		l, r := m.ENum(7), m.ENum(2)
		switch op {
		case "in", "not in":
			r = m.EName("arr")
		case "starts with", "ends with", "matches", "~":
			l, r = s, m.EStr("a")
		case "..":
			return0 := &m.N{K: "for", S: "i", X: m.EBin("..", m.ENum(1), m.ENum(3)), Body: []*m.N{m.NPrint(m.EName("i"))}}
			out = append(out, one(return0))
			continue
		}
		out = append(out, pr(m.EBin(op, l, r)))
	}
	out = append(out,
		pr(m.EUn("not", m.EName("b"))), pr(m.EUn("-", x)), pr(m.EUn("+", x)),
		pr(m.ECond(m.EName("b"), m.EStr("y"), m.EStr("n"))),
		pr(m.EArr(m.ENum(1), m.EStr("t"), x)), pr(m.EIdx(m.EArr(m.ENum(1), m.ENum(2)), m.ENum(1))), pr(m.EAttr(hash, "k")), pr(m.EIdx(hash, m.EStr("j"))),
		pr(m.ECall("cat", x, s, m.ENull(), m.EBool(false))), pr(m.EFilter("wrap", s, m.ENum(1), m.EStr("z"))), pr(m.EFilter("up", m.EFilter("fid", s))),
		pr(m.ETest("odd", false, x)), pr(m.ETest("divisible by", true, x, m.ENum(3))),
		pr(&m.E{K: "interp", A: []*m.E{m.EStr("a"), x, m.EStr("b"), s, m.EStr("")}}),
		pr(m.EBin("+", m.EBin("*", x, m.ENum(2)), m.EUn("-", m.ENum(1)))),
		pr(m.EAttr(m.EAttr(m.EName("loop"), "parent"), "index")),
	)
	// tag kinds
	out = append(out,
		one(&m.N{K: "if", X: m.EName("b"), Body: []*m.N{m.NText("t")}, Elifs: []*m.Elif{{Cond: m.EBin("==", x, m.ENum(3)), Body: []*m.N{m.NText("e")}}}, HasElse: true, Else: []*m.N{m.NText("f")}}),
		one(&m.N{K: "for", T: "k", S: "v", X: m.EName("arr"), Y: m.EBin(">", m.EName("v"), m.ENum(1)), Body: []*m.N{m.NPrint(m.EName("k")), m.NPrint(m.EName("v"))}, HasElse: true, Else: []*m.N{m.NText("none")}}),
		one(&m.N{K: "set", S: "y", X: m.EBin("+", x, m.ENum(1))}, m.NPrint(m.EName("y"))),
		one(&m.N{K: "setcap", S: "y", Body: []*m.N{m.NText("cap"), m.NPrint(x)}}, m.NPrint(m.EName("y"))),
		one(&m.N{K: "do", X: m.ECall("id", x)}),
		one(&m.N{K: "filter", Names: []string{"up", "wrap"}, Body: []*m.N{m.NText("body"), m.NPrint(s)}}),
		one(&m.N{K: "block", S: "a", Body: []*m.N{m.NText("A")}}, m.NPrint(&m.E{K: "blockfn", A: []*m.E{m.EStr("a")}})),
		one(&m.N{K: "extends", X: m.EStr("other")}, &m.N{K: "block", S: "a", Body: []*m.N{m.NText("mine"), m.NPrint(&m.E{K: "parent"})}}),
		one(&m.N{K: "extends", X: m.EStr("other")}, &m.N{K: "use", X: m.EStr("other"), Pairs: [][2]string{{"a", "ua"}}}, &m.N{K: "block", S: "a", Body: []*m.N{m.NPrint(&m.E{K: "blockfn", A: []*m.E{m.EStr("ua")}})}}),
		one(&m.N{K: "include", X: m.EStr("other")}),
		one(&m.N{K: "include", X: m.EStr("other"), Y: &m.E{K: "hash", KS: []*m.E{m.EStr("x")}, A: []*m.E{m.ENum(9)}}, Only: true}),
		one(&m.N{K: "include", X: m.EStr("other"), Only: true}),
		one(&m.N{K: "embed", X: m.EStr("other"), Y: &m.E{K: "hash", KS: []*m.E{m.EName("x")}, A: []*m.E{m.ENum(5)}}, Blocks: []*m.N{{K: "block", S: "a", Body: []*m.N{m.NText("E"), m.NPrint(&m.E{K: "parent"})}}}}),
		one(&m.N{K: "macro", S: "mc", Names: []string{"p", "q"}, Body: []*m.N{m.NPrint(m.EName("p")), m.NText("-"), m.NPrint(m.EName("q"))}}, m.NPrint(&m.E{K: "mcall", S: "mc", T: "self", A: []*m.E{x, s}})),
		one(&m.N{K: "import", X: m.EStr("lib"), S: "mm"}, m.NPrint(&m.E{K: "mcall", S: "mm", T: "alias", U: "mm", A: []*m.E{x, m.ENum(2)}})),
		one(&m.N{K: "from", X: m.EStr("lib"), Pairs: [][2]string{{"mm", "f1"}}}, m.NPrint(&m.E{K: "mcall", S: "mm", T: "from", U: "f1", A: []*m.E{s}})),
		one(m.NText("a"), &m.N{K: "verbatim", S: "{{ raw }}{% x %}"}, m.NText("b")),
		one(m.NText("a"), &m.N{K: "comment", S: " c "}, m.NPrint(x)),
	)
	// nested hash literals: closing braces directly before a closing delimiter
	nested := &m.E{K: "hash", KS: []*m.E{m.EName("a")}, A: []*m.E{{K: "hash", KS: []*m.E{m.EName("b")}, A: []*m.E{m.ENum(1)}}}}
	nested3 := &m.E{K: "hash", KS: []*m.E{m.EStr("o")}, A: []*m.E{nested}}
	out = append(out, pr(nested), pr(nested3), pr(m.EAttr(m.EAttr(nested, "a"), "b")), pr(m.ECall("cat", nested)), pr(m.EArr(nested, nested3)),
		one(&m.N{K: "set", S: "y", X: nested}, m.NPrint(m.EAttr(m.EAttr(m.EName("y"), "a"), "b"))),
		one(&m.N{K: "include", X: m.EStr("other"), Y: &m.E{K: "hash", KS: []*m.E{m.EStr("x")}, A: []*m.E{nested}}, Only: true}),
		one(&m.N{K: "if", X: m.EBin("==", m.EAttr(m.EAttr(nested, "a"), "b"), m.ENum(1)), Body: []*m.N{m.NText("t")}}),
		pr(&m.E{K: "interp", A: []*m.E{m.EStr("a"), m.EAttr(m.EAttr(nested, "a"), "b"), m.EStr("b")}}))
	// interpolations that hold brackets of their own, inside a hash, list, call
	// or group that is the last thing before the closing delimiter: the
	// lexer's bracket bookkeeping has to survive the interpolation
	// ({{ 'v1' in {k:"v#{arr[0]}"}}} - the hash's brace directly before "}}")
	ip := func(inner *m.E) *m.E { return &m.E{K: "interp", A: []*m.E{m.EStr("v"), inner, m.EStr("")}} }
	hk := func(v *m.E) *m.E { return &m.E{K: "hash", KS: []*m.E{m.EName("k")}, A: []*m.E{v}} }
	arr0 := m.EIdx(m.EName("arr"), m.ENum(0))
	for _, inner := range []*m.E{arr0, {K: "group", A: []*m.E{x}}, m.ECall("cat", x), m.EAttr(hk(m.ENum(1)), "k"), m.EIdx(m.EArr(m.ENum(1), m.ENum(2)), m.ENum(1))} {
		out = append(out, pr(m.EBin("in", m.EStr("v1"), hk(ip(inner)))), pr(m.EAttr(hk(ip(inner)), "k")), pr(m.EIdx(m.EArr(ip(inner)), m.ENum(0))),
			pr(m.ECall("cat", ip(inner))), pr(&m.E{K: "group", A: []*m.E{ip(inner)}}), pr(hk(hk(ip(inner)))),
			one(&m.N{K: "set", S: "y", X: hk(ip(inner))}, m.NPrint(m.EAttr(m.EName("y"), "k"))),
			one(&m.N{K: "include", X: m.EStr("other"), Y: &m.E{K: "hash", KS: []*m.E{m.EStr("x")}, A: []*m.E{ip(inner)}}, Only: true}))
	}
	// words that are also operators or keywords, used as attribute names, hash
	// keys, variables and macro names: whatever stick makes of them (several are
	// syntax errors), it must make the same of every spelling
	wordHash := func(w string) *m.E {
		return &m.E{K: "hash", KS: []*m.E{m.EName(w)}, A: []*m.E{m.ENum(1)}}
	}
	for _, w := range []string{"in", "is", "not", "and", "or", "matches", "if", "for", "with", "only", "as", "b", "starts", "true", "null", "divisible"} {
		out = append(out, pr(m.EAttr(m.EName("item"), w)), pr(m.EAttr(wordHash(w), w)), pr(m.EBin("+", m.EName(w), m.ENum(1))),
			one(&m.N{K: "set", S: w, X: m.ENum(2)}, m.NPrint(m.EName(w))),
			one(&m.N{K: "for", S: w, X: m.EName("arr"), Body: []*m.N{m.NPrint(m.EName(w))}}))
	}
	return out
}

func init() {
	p := &Property{
		ID:        "C14",
		Level:     "exploration",
		Technique: "metamorphic property-based testing (rapid): observation under a re-spelling of the token sequence must equal the observation under the canonical spelling; exhaustive single/pair boundary variation on exemplars",
		Rule: "model programs (all tag kinds and expression forms, single- and multi-template) x re-spellings of their token sequence: at each token boundary inside {{ }} / {% %} one of \"\" (only where a conservative predicate says the tokens cannot fuse), blank, two blanks, tab, LF, CRLF, CR, mixed; quote style of plain string literals; trailing comma in array/hash literals; '-' markers on delimiters without adjacent whitespace. The words of not in / is not / starts with / ends with are separate tokens. " +
			"(a) random spellings of random programs; (b) for one exemplar per tag kind and expression form (~60) exhaustive over the whitespace choice at every single boundary (and every pair of boundaries in the thorough tier). " +
			"Oracle: same status and same output as the canonical spelling; a crash or hang of either is a violation. Non-trivial: the spelling differs at >= 1 boundary and uses no whitespace or a non-blank whitespace character somewhere; distinct by sources. Exemplars also use operator and keyword words (in, is, not, and, or, matches, if, for, with, only, as, b, starts, true, null, divisible) as attribute names, hash keys, variables and loop variables - whatever stick makes of them, every spelling must be treated alike.",
		Assumptions: []string{"the canonical spelling's own meaning is decided by the model-based checks (C03-C11)", "the cannot-fuse predicate (model.MustSep) is conservative: it forces whitespace wherever two tokens might merge, so such boundaries are never written tight"},
	}
	sub := NewSub(p, "respell", func(c *Ctx, cs *c14Case) *Fail {
		canon, resp, changed, hard := c14Sources(cs)
		req := execReq(cs.P)
		req.Templates = canon
		a := c.SB.Do(req)
		req2 := execReq(cs.P)
		req2.Templates = resp
		b := c.SB.Do(req2)
		nt := changed >= 1 && hard >= 1
		var names []string
		for n := range resp {
			names = append(names, n)
		}
		sort.Strings(names)
		key := ""
		for _, n := range names {
			key += n + "\x00" + resp[n] + "\x00"
		}
		c.Ev.Count(key, nt, "canon-status:"+a.Status)
		if nt && changed > 0 {
			c.Ev.Sample(map[string]interface{}{"canonical": canon[cs.P.Entry], "respelt": resp[cs.P.Entry], "status": a.Status})
		}
		if a.Status == "infra" || b.Status == "infra" {
			return fatalFail(a)
		}
		if a.Fatal() {
			return fatalFail(a)
		}
		if b.Fatal() {
			return fatalFail(b)
		}
		if a.Status != b.Status || a.Out != b.Out {
			return &Fail{Sig: "respelling-changes-meaning:" + c14Class(canon, resp), Expected: fmt.Sprintf("%s %q %s", a.Status, a.Out, a.Err),
				Observed: fmt.Sprintf("%s %q %s\ncanonical: %v\nrespelt:   %v", b.Status, b.Out, b.Err, canon, resp)}
		}
		return nil
	})
	p.Run = func(c *Ctx) {
		// (b) exemplars: every single boundary x every whitespace choice
		ex := c14Exemplars()
		idx := 0
		done := true
		for _, prog := range ex {
			toks := m.Tokens(prog.Tpls[0].Body)
			var bounds []int
			for i, tk := range toks {
				if tk.In && i > 0 {
					bounds = append(bounds, i)
				}
			}
			for bi, i := range bounds {
				for _, w := range c14Spaces {
					idx++
					if c.Mine(idx) {
						if !sub.Check(c, &c14Case{P: prog, Ws: map[string]map[int]string{"main": {i: w}}}) {
							done = false
						}
					}
					if !c.Quick() {
						for _, j := range bounds[bi+1:] {
							for _, w2 := range []string{"", "\n", "\t", "\r\n"} {
								idx++
								if c.Mine(idx) {
									if !sub.Check(c, &c14Case{P: prog, Ws: map[string]map[int]string{"main": {i: w, j: w2}}}) {
										done = false
									}
								}
							}
						}
					}
				}
			}
		}
		c.Ev.S.Exhaustive["exemplar_boundaries"] = done && !c.Expired()
		cfg := gen.Cfg{ExprDepth: 3, BodyLen: 3, Nest: 3, Calls: true, Comments: true, Verbatim: true, If: true, For: true, LoopMeta: true, ForIf: true,
			Set: true, SetCap: true, FilterSec: true, Macros: true, Blocks: true, Do: true, HostileText: true}
		sub.Rapid(c, c.Share(c.Pick(15000, 800000)), func(t *rapid.T) *c14Case {
			var prog *m.Program
			switch rapid.IntRange(0, 5).Draw(t, "kind") {
			case 0:
				prog = gen.BuildInherit(gen.GenInherit(t))
			case 1:
				prog = (&gen.G{T: t, C: gen.Cfg{Calls: true}}).IncludeProgram()
			case 2:
				prog = (&gen.G{T: t, C: gen.Cfg{Calls: true, ExprDepth: 2}}).MacroProgram()
			default:
				prog = (&gen.G{T: t, C: cfg}).Program()
			}
			return c14Respell(t, prog)
		})
	}
	Register(p)
}

// c14Class names the kind of spelling difference for known-finding matching.
func c14Class(canon, resp map[string]string) string {
	for n, cs := range canon {
		rs := resp[n]
		if cs == rs {
			continue
		}
		if strings.Contains(rs, "\r") {
			return "carriage-return"
		}
	}
	return "other"
}

var _ = sb.DefaultDeadlineMs

// exprsOutsideInterp visits every expression, including those inside a string
// interpolation, except the literal text parts of interpolated strings.
func exprsOutsideInterp(ns []*m.N, f func(e *m.E)) {
	var walkE func(e *m.E)
	walkE = func(e *m.E) {
		if e == nil {
			return
		}
		f(e)
		if e.K == "interp" {
			// the str parts of an interpolation are its literal text, not
			// string literals; the expressions between them are visited (a
			// double-quoted string inside "#{ }" is fine since fix of the lexer)
			for _, a := range e.A {
				if a.K != "str" {
					walkE(a)
				}
			}
			return
		}
		for _, a := range e.A {
			walkE(a)
		}
		for _, a := range e.KS {
			walkE(a)
		}
	}
	m.Walk(ns, func(n *m.N, _ int) {
		walkE(n.X)
		walkE(n.Y)
		for _, el := range n.Elifs {
			walkE(el.Cond)
		}
	})
}
