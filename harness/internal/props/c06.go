package props

import (
	"pgregory.net/rapid"

	"verif/internal/gen"
	m "verif/internal/model"
)

// modelSub builds the standard model-vs-stick sub-check: nt decides
// non-triviality from the program and the model's feature counters.
func modelSub(p *Property, name string, opt compareOpts, nt func(cs *progCase, res *m.Result) bool) *Sub[progCase] {
	return NewSub(p, name, func(c *Ctx, cs *progCase) *Fail {
		res, _, f := compareModel(c, cs.P, opt)
		if res.Status == "discard" {
			return nil
		}
		isNT := nt(cs, res)
		labels := append(featLabels(res), "model:"+res.Status)
		c.Ev.Count(progKey(cs.P), isNT, labels...)
		if isNT {
			c.Ev.Sample(sampleProg(cs.P, res))
		}
		return f
	})
}

func progGen(cfg gen.Cfg) func(t *rapid.T) *progCase {
	return func(t *rapid.T) *progCase {
		g := &gen.G{T: t, C: cfg}
		return &progCase{P: g.Program()}
	}
}

// C06: conditionals and loops.
func init() {
	p := &Property{
		ID:        "C06",
		Level:     "exploration",
		Technique: "property-based testing (rapid): generated if/elseif/else and for nestings vs an independent reference evaluator",
		Rule: "programs nesting if/elseif*/else and for (value or key,value; inline if; else) to depth 4 over array literals, ranges, context slices of several Go element types, null, single-entry hashes and non-iterable scalars, " +
			"bodies printing key, value and every loop metadata field incl. loop.parent; oracle: reference evaluator (exact output; error with output prefix for non-iterables). " +
			"Non-trivial: a loop over >= 2 elements, or an elseif arm other than the first taken, or a for..if rejecting an element, or a for-else taken; distinct by program. Also: a macro that loops and calls itself from the loop body (bounded depth) and reads loop variables, metadata, parameters and captures after the nested call; ranges that count down; a user filter reading loop.index through Context.Scope() in bodies that mention neither loop nor a function; large instances (loops of 255..4097 iterations - thorough 200000 - with every metadata field, 12 nested loops reading the loop.parent chain, a 300-arm elseif ladder).",
		Assumptions: []string{"reference evaluator trusted inside the agreement region (for..if bodies do not use loop metadata; else is rendered iff the sequence itself is empty, as the statement says)"},
	}
	sub := modelSub(p, "flow", compareOpts{}, func(cs *progCase, res *m.Result) bool {
		f := res.Feat
		return f["for-multi"] > 0 || f["if-elseif-later"] > 0 || f["for-if-rejected"] > 0 || f["for-else"] > 0
	})
	p.Run = func(c *Ctx) {
		runScale(c, sub, "C06")
		// complete grid: length 0..8 x container kind x {plain, if, else, if+else}
		meta := func() []*m.N {
			var out []*m.N
			for _, f := range []string{"index", "index0", "revindex", "revindex0", "length", "first", "last"} {
				out = append(out, m.NPrint(m.ECall("cat", m.EAttr(m.EName("loop"), f))))
			}
			return out
		}
		idx := 0
		done := true
		for n := 0; n <= 8; n++ {
			vals := m.Val{K: m.KArr}
			lit := m.EArr()
			for i := 0; i < n; i++ {
				vals.A = append(vals.A, m.Num(float64(i*3%7)))
				lit.A = append(lit.A, m.ENum(float64(i*3%7)))
			}
			conts := map[string]*m.E{"literal": lit, "ctx-values": m.EName("arr"), "ctx-slice": m.EName("sl"), "ctx-int8": m.EName("s8")}
			if n >= 1 {
				conts["range"] = m.EBin("..", m.ENum(2), m.ENum(float64(n+1)))
			} else {
				conts["null"] = m.ENull()
			}
			if n <= 1 {
				h := &m.E{K: "hash"}
				if n == 1 {
					h.KS, h.A = []*m.E{m.EStr("k")}, []*m.E{m.ENum(5)}
				}
				conts["hash"] = h
			}
			ctx := []*m.CtxVar{{Name: "arr", V: vals}, {Name: "sl", V: vals, Carrier: "slice"}, {Name: "s8", V: vals, Carrier: "slice"}}
			for _, name := range []string{"literal", "ctx-values", "ctx-slice", "ctx-int8", "range", "null", "hash"} {
				x, ok := conts[name]
				if !ok {
					continue
				}
				for variant := 0; variant < 4; variant++ {
					f := &m.N{K: "for", T: "k", S: "v", X: x}
					f.Body = []*m.N{m.NText("<"), m.NPrint(m.ECall("cat", m.EName("k"), m.EName("v")))}
					if variant&1 == 0 {
						f.Body = append(f.Body, meta()...)
					} else {
						f.Y = m.EBin("!=", m.EBin("%", m.EName("v"), m.ENum(2)), m.ENum(0))
						if name == "hash" {
							f.Y = m.EBin(">", m.EName("v"), m.ENum(9))
						}
					}
					f.Body = append(f.Body, m.NText(">"))
					if variant&2 != 0 {
						f.HasElse, f.Else = true, []*m.N{m.NText("EMPTY")}
					}
					idx++
					if !c.Mine(idx) {
						continue
					}
					prog := &m.Program{Env: "core", Loader: "memory", Entry: "main", Ctx: ctx, Tpls: []*m.Tpl{{Name: "main", Body: []*m.N{m.NText("["), f, m.NText("]")}}}}
					if !sub.Check(c, &progCase{P: prog}) {
						done = false
					}
				}
			}
		}
		c.Ev.S.Exhaustive["length_x_container_x_form_grid"] = done
		cfg := gen.Cfg{ExprDepth: 2, BodyLen: 3, Nest: 4, Calls: true, Carriers: true, If: true, For: true, LoopMeta: true, ForIf: true, NonIterable: true, Collide: true, RecMacro: true}
		sub.Rapid(c, c.Share(c.Pick(25000, 1000000)), progGen(cfg))
	}
	Register(p)
}
