package props

import (
	"pgregory.net/rapid"

	"verif/internal/gen"
	m "verif/internal/model"
)

// modelSub builds the standard model-vs-stick sub-check: nt decides
// non-triviality from the program and the model's feature counters.
func modelSub(p *Property, name string, opt compareOpts, nt func(cs *progCase, res *m.Result) bool) *Sub[progCase] {
	return NewSub(p, name, func(c *Ctx, cs *progCase) *Fail {
		res, _, f := compareModel(c, cs.P, opt)
		if res.Status == "discard" {
			return nil
		}
		isNT := nt(cs, res)
		labels := append(featLabels(res), "model:"+res.Status)
		c.Ev.Count(progKey(cs.P), isNT, labels...)
		if isNT {
			c.Ev.Sample(sampleProg(cs.P, res))
		}
		return f
	})
}

func progGen(cfg gen.Cfg) func(t *rapid.T) *progCase {
	return func(t *rapid.T) *progCase {
		g := &gen.G{T: t, C: cfg}
		return &progCase{P: g.Program()}
	}
}

// C06: conditionals and loops.
func init() {
	p := &Property{
		ID:        "C06",
		Level:     "exploration",
		Technique: "property-based testing (rapid): generated if/elseif/else and for nestings vs an independent reference evaluator",
		Rule: "programs nesting if/elseif*/else and for (value or key,value; inline if; else) to depth 4 over array literals, ranges, context slices of several Go element types, null, single-entry hashes and non-iterable scalars, " +
			"bodies printing key, value and every loop metadata field incl. loop.parent; oracle: reference evaluator (exact output; error with output prefix for non-iterables). " +
			"Non-trivial: a loop over >= 2 elements, or an elseif arm other than the first taken, or a for..if rejecting an element, or a for-else taken; distinct by program.",
		Assumptions: []string{"reference evaluator trusted inside the agreement region (for..if bodies do not use loop metadata; else is rendered iff the sequence itself is empty, as the statement says)"},
	}
	sub := modelSub(p, "flow", compareOpts{}, func(cs *progCase, res *m.Result) bool {
		f := res.Feat
		return f["for-multi"] > 0 || f["if-elseif-later"] > 0 || f["for-if-rejected"] > 0 || f["for-else"] > 0
	})
	p.Run = func(c *Ctx) {
		cfg := gen.Cfg{ExprDepth: 2, BodyLen: 3, Nest: 4, Calls: true, Carriers: true, If: true, For: true, LoopMeta: true, ForIf: true, NonIterable: true, Collide: true}
		sub.Rapid(c, c.Share(c.Pick(25000, 1000000)), progGen(cfg))
	}
	Register(p)
}
