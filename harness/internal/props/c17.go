package props

import (
	"encoding/json"
	"fmt"
	"strings"

	"pgregory.net/rapid"

	"verif/internal/gen"
	m "verif/internal/model"
	"verif/internal/sb"
)

// C17: failures are reported, never swallowed; safe execution is all-or-nothing.

type c17Fault struct {
	Kind string `json:"kind"` // write | load | rt
	K    int    `json:"k,omitempty"`
	Mode int    `json:"mode,omitempty"`
	Pos  int    `json:"pos,omitempty"`  // rt: statement index (pre-order) in the entry template
	What string `json:"what,omitempty"` // rt: error construct
}

type c17Case struct {
	P *m.Program `json:"p"`
	F c17Fault   `json:"fault"`
}

var c17Whats = []string{"noniterable", "nofunction", "nofilter", "notest", "missing-template", "unknown-macro", "broken-include", "broken-import", "broken-embed", "parent-outside", "bad-regexp", "oversized-range", "mod-zero",
	"err-in-cond-branch", "err-in-args", "err-in-literal", "err-in-interp", "err-in-set", "err-in-if", "err-in-for-seq", "err-in-include-name", "err-in-with", "err-in-operand",
	"err-in-filter-operand", "err-in-filter-operand-args", "err-in-test-operand",
	"err-in-macro-arg-alias", "err-in-macro-arg-from", "err-in-macro-arg-nested"}

func c17Construct(what string) []*m.N {
	switch what {
	case "noniterable":
		return []*m.N{{K: "for", S: "zz", X: m.ENum(5), Body: []*m.N{m.NText("never")}}}
	case "nofunction":
		return []*m.N{m.NPrint(m.ECall("nosuchfunction"))}
	case "nofilter":
		return []*m.N{m.NPrint(m.EFilter("nosuchfilter", m.ENum(1)))}
	case "notest":
		return []*m.N{m.NPrint(m.ETest("nosuchtest", false, m.ENum(1)))}
	case "missing-template":
		return []*m.N{{K: "include", X: m.EStr("fmissing")}}
	case "unknown-macro":
		return []*m.N{{K: "import", X: m.EStr("flib"), S: "fz"}, m.NPrint(&m.E{K: "mcall", S: "nosuch", T: "alias", U: "fz"})}
	case "broken-include":
		return []*m.N{{K: "include", X: m.EStr("fbroken")}}
	case "broken-import":
		return []*m.N{{K: "import", X: m.EStr("fbroken"), S: "fq"}}
	case "broken-embed":
		return []*m.N{{K: "embed", X: m.EStr("fbroken")}}
	case "parent-outside":
		return []*m.N{m.NPrint(&m.E{K: "parent"})}
	case "bad-regexp":
		// the same invalid pattern is evaluated again and again in one process
		return []*m.N{m.NPrint(m.EBin("matches", m.EStr("abc"), m.EStr("a(b")))}
	case "mod-zero":
		return []*m.N{m.NPrint(m.EBin("%", m.ENum(1), m.ENum(0)))}
	case "oversized-range":
		return []*m.N{{K: "for", S: "zz", X: m.EBin("..", m.ENum(1), m.ENum(1e12)), Body: []*m.N{m.NText("never")}}}
	case "err-in-cond-branch":
		return []*m.N{m.NPrint(m.ECond(m.EBool(true), m.ECall("nosuchfunction"), m.ENum(1))), m.NPrint(m.ECond(m.EBool(false), m.ENum(1), m.ECall("nosuchfunction")))}
	case "err-in-args":
		return []*m.N{m.NPrint(m.EFilter("wrap", m.ENum(1), m.ECall("cat", m.ENum(2), m.ECall("nosuchfunction"))))}
	case "err-in-literal":
		return []*m.N{m.NPrint(m.ECall("cat", m.EArr(m.ENum(1), m.ECall("nosuchfunction")), &m.E{K: "hash", KS: []*m.E{m.EName("k")}, A: []*m.E{m.ENum(1)}}))}
	case "err-in-interp":
		return []*m.N{m.NPrint(&m.E{K: "interp", A: []*m.E{m.EStr("a"), m.ECall("nosuchfunction"), m.EStr("b")}})}
	case "err-in-set":
		return []*m.N{{K: "set", S: "zzv", X: m.EBin("~", m.EStr("a"), m.ECall("nosuchfunction"))}}
	case "err-in-if":
		return []*m.N{{K: "if", X: m.EUn("not", m.ECall("nosuchfunction")), Body: []*m.N{m.NText("never")}}}
	case "err-in-for-seq":
		return []*m.N{{K: "for", S: "zz", X: m.ECall("nosuchfunction"), Body: []*m.N{m.NText("never")}}}
	case "err-in-include-name":
		return []*m.N{{K: "include", X: m.EBin("~", m.EStr("flib"), m.ECall("nosuchfunction"))}}
	case "err-in-with":
		return []*m.N{{K: "include", X: m.EStr("flib"), Y: &m.E{K: "hash", KS: []*m.E{m.EName("k")}, A: []*m.E{m.ECall("nosuchfunction")}}}}
	case "err-in-operand":
		return []*m.N{m.NPrint(m.EBin("+", m.ENum(1), m.EBin("*", m.ENum(2), m.EUn("-", m.ECall("nosuchfunction")))))}
	case "err-in-filter-operand":
		// the value a declared filter is applied to fails
		return []*m.N{m.NPrint(m.EFilter("up", m.ECall("nosuchfunction")))}
	case "err-in-filter-operand-args":
		return []*m.N{m.NPrint(m.EFilter("wrap", m.EBin("%", m.ENum(7), m.ENum(0)), m.EStr("x")))}
	case "err-in-test-operand":
		return []*m.N{m.NPrint(m.ECond(m.ETest("odd", false, m.ECall("nosuchfunction")), m.EStr("a"), m.EStr("b")))}
	case "err-in-macro-arg-alias":
		// an argument of a macro call fails (surplus arguments are ignored,
		// their errors are not): through an import alias ...
		return []*m.N{{K: "import", X: m.EStr("flib"), S: "fz"}, m.NPrint(&m.E{K: "mcall", S: "real", T: "alias", U: "fz", A: []*m.E{m.EStr("age"), m.EBin("%", m.ENum(10), m.ENum(0))}})}
	case "err-in-macro-arg-from":
		// ... through a from-import ...
		return []*m.N{{K: "from", X: m.EStr("flib"), Pairs: [][2]string{{"real", "fzr"}}}, m.NPrint(&m.E{K: "mcall", S: "real", T: "from", U: "fzr", A: []*m.E{m.ECall("nosuchfunction", m.ENum(1))}})}
	case "err-in-macro-arg-nested":
		// ... and nested in a list passed to the macro, the call being the
		// operand of a filter
		return []*m.N{{K: "import", X: m.EStr("flib"), S: "fz"}, m.NPrint(m.EFilter("up", &m.E{K: "mcall", S: "real", T: "alias", U: "fz", A: []*m.E{m.EArr(m.ENum(1), m.ECall("nosuchfunction"))}}))}
	case "marker":
		return []*m.N{{K: "do", X: m.ECall("id", m.EStr("@@"))}}
	}
	return nil
}

// c17Broken are sources that cannot be parsed, one per kind of failure
// (lexer errors, unexpected tokens and values, unclosed constructs, malformed
// tag heads, end of input).
var c17Broken = []string{
	"ok {{ 1 + }}", "ok {% frobnicate %}", "ok {{ \"abc }}", "ok {# never closed", "ok {% if x %}open", "ok {{ a ! }}",
	"ok {% for 1 in xs %}x{% endfor %}", "ok {% for k, 2 in xs %}x{% endfor %}", "ok {% for v in xs unless c %}x{% endfor %}",
	"ok {{ x is 4 }}", "ok {{ x is 'a' }}", "ok {% embed 'flib' %}{% blok %}{% endembed %}", "ok {% import 'flib' az m %}",
	"ok {% extends 'flib' %}{% extends 'flib' %}", "ok {% set %}", "ok {% block %}", "ok {{ [1, }}", "ok {{ {a: } }}", "ok {% endif %}",
	"ok {% macro m( %}{% endmacro %}", "ok {{ f(a : b) }}", "ok {% use 'flib' wiht a as b %}", "ok {{",
}

func findExtendsN(ns []*m.N) bool {
	for _, n := range ns {
		if n.K == "extends" {
			return true
		}
	}
	return false
}

func cloneProg(p *m.Program) *m.Program {
	b, _ := json.Marshal(p)
	var q m.Program
	json.Unmarshal(b, &q)
	return &q
}

// countStmts returns the number of statement positions (pre-order) in a body.
func countStmts(ns []*m.N) int {
	n := 0
	m.Walk(ns, func(*m.N, int) { n++ })
	return n
}

// insertBefore inserts nodes before the idx-th statement (pre-order).
func insertBefore(ns []*m.N, idx *int, ins []*m.N, inBlock bool, okPos *bool) []*m.N {
	var out []*m.N
	for _, n := range ns {
		if *idx == 0 {
			out = append(out, ins...)
			*okPos = !inBlock
		}
		*idx--
		ib := inBlock || n.K == "block" || n.K == "macro"
		n.Body = insertBefore(n.Body, idx, ins, ib, okPos)
		for _, el := range n.Elifs {
			el.Body = insertBefore(el.Body, idx, ins, ib, okPos)
		}
		n.Else = insertBefore(n.Else, idx, ins, ib, okPos)
		// directly between the blocks of an embed body nothing but blocks is
		// allowed: those positions are counted but nothing is inserted there
		for _, b := range n.Blocks {
			if *idx == 0 {
				*okPos = false
			}
			*idx--
			b.Body = insertBefore(b.Body, idx, ins, true, okPos)
		}
		out = append(out, n)
	}
	return out
}

func withConstruct(p *m.Program, pos int, what string) (*m.Program, bool) {
	q := cloneProg(p)
	t := q.Tpl(q.Entry)
	idx := pos
	top := true
	t.Body = insertBefore(t.Body, &idx, c17Construct(what), false, &top)
	return q, top
}

func c17Req(p *m.Program) *sb.Req {
	req := execReq(p)
	req.Templates["flib"] = "{% macro real() %}r{% endmacro %}"
	// the template with a syntax error: one of every kind of parse failure,
	// chosen by the program
	req.Templates["fbroken"] = c17Broken[int(hashStr(progKey(p))%uint64(len(c17Broken)))]
	req.WantWrites = true
	return req
}

func init() {
	p := &Property{
		ID:        "C17",
		Level:     "fault_enumeration",
		Technique: "fault enumeration over generated programs: every write fails in turn (two modes), every load fails in turn, run-time error constructs inserted at every statement position; invariants over the recorded write history",
		Rule: "generated programs (text, prints, loops, captures, filter sections, macros, includes, embeds, inheritance) x every fault point: the destination writer failing at its k-th Write for every k in 1..W (error with n=0; short write with error), the loader failing at its k-th Load for every k in 1..L, and run-time error constructs (non-iterable for, unknown function / filter / test, missing template, unknown macro of an import, include / import / embed of a template with one of 23 kinds of syntax error, parent() outside a block, invalid regular expression, oversized range, modulo by zero, and a failing expression in sixteen positions, among them the operand of a declared filter and of a test and the arguments of macro calls through an import alias and a from-import) inserted before every statement of the entry template. " +
			"Oracle (invariants): Execute returns a non-nil error; the bytes the writer accepted are a prefix of the fault-free output (for inserted constructs: of the output of the program without the construct; a construct that is never reached - decided by a marker run - must change nothing); no Write call after the failed one; ExecuteSafe performs zero writes when rendering fails and otherwise delivers exactly Execute's bytes. " +
			"Non-trivial: the program performs >= 3 writes and contains a filter section, include, embed or inherited block; counted per distinct (program, fault point).",
		Assumptions: []string{"a writer that returns a short count with a nil error is a writer bug and is not injected", "a template reader failing mid-read is not in the statement's fault list"},
	}
	sub := NewSub(p, "fault", func(c *Ctx, cs *c17Case) *Fail {
		var base *sb.Resp
		if v, ok := c.Memo[cs.P]; ok {
			base = v.(*sb.Resp)
		} else {
			base = c.SB.Do(c17Req(cs.P))
			if len(c.Memo) > 64 {
				c.Memo = map[interface{}]interface{}{}
			}
			c.Memo[cs.P] = base
		}
		if base.Fatal() || base.Status == "infra" {
			return fatalFail(base)
		}
		interesting := false
		m.Walk(cs.P.Tpl(cs.P.Entry).Body, func(n *m.N, _ int) {
			switch n.K {
			case "filter", "include", "embed", "extends":
				interesting = true
			}
		})
		nt := base.NWrites >= 3 && interesting
		key, _ := jsonStr(cs)
		label := "fault:" + cs.F.Kind
		if cs.F.Kind == "rt" {
			label += ":" + cs.F.What
		}
		c.Ev.Count(key, nt, label)
		if nt {
			c.Ev.Sample(map[string]interface{}{"templates": cs.P.Sources(), "fault": cs.F, "fault_free_writes": base.NWrites, "loads": base.NLoads})
		}
		src := progSrc(cs.P)
		check := func(r *sb.Resp, ref string, what string) *Fail {
			if r.Fatal() || r.Status == "infra" {
				return fatalFail(r)
			}
			if r.Status != "error" {
				return &Fail{Sig: "swallowed:" + what, Expected: "Execute returns an error", Observed: fmt.Sprintf("nil error, output %q\n%s", r.Out, src)}
			}
			if !strings.HasPrefix(ref, r.Out) {
				return &Fail{Sig: "not-a-prefix:" + what, Expected: "a prefix of " + ref, Observed: r.Out + "\n" + src}
			}
			if r.WritesAfterFail > 0 {
				return &Fail{Sig: "write-after-failure:" + what, Expected: "no Write after the failed one", Observed: fmt.Sprintf("%d more Write calls\n%s", r.WritesAfterFail, src)}
			}
			return nil
		}
		safeNothing := func(req *sb.Req, what string) *Fail {
			req.Safe = true
			r := c.SB.Do(req)
			if r.Fatal() || r.Status == "infra" {
				return fatalFail(r)
			}
			if r.Status != "error" {
				return &Fail{Sig: "safe-swallowed:" + what, Expected: "ExecuteSafe returns an error", Observed: r.Out + "\n" + src}
			}
			if r.NWrites != 0 || r.Out != "" {
				return &Fail{Sig: "safe-partial-output:" + what, Expected: "no writes at all", Observed: fmt.Sprintf("%d writes, %q\n%s", r.NWrites, r.Out, src)}
			}
			return nil
		}
		switch cs.F.Kind {
		case "safe-ok":
			if base.Status != "ok" {
				return nil
			}
			req := c17Req(cs.P)
			req.Safe = true
			r := c.SB.Do(req)
			if r.Fatal() || r.Status == "infra" {
				return fatalFail(r)
			}
			if r.Status != "ok" || r.Out != base.Out {
				return &Fail{Sig: "safe-differs", Expected: base.Out, Observed: r.Status + " " + r.Out + r.Err + "\n" + src}
			}
		case "write":
			if base.Status != "ok" || cs.F.K > base.NWrites {
				return nil
			}
			req := c17Req(cs.P)
			req.WriteFailAt, req.WriteMode = cs.F.K, cs.F.Mode
			if f := check(c.SB.Do(req), base.Out, "write"); f != nil {
				return f
			}
		case "load":
			if base.Status != "ok" || cs.F.K > base.NLoads {
				return nil
			}
			req := c17Req(cs.P)
			req.LoadFailAt, req.LoadFailMode = cs.F.K, cs.F.Mode
			if f := check(c.SB.Do(req), base.Out, "load"); f != nil {
				return f
			}
			req2 := c17Req(cs.P)
			req2.LoadFailAt, req2.LoadFailMode = cs.F.K, cs.F.Mode
			if f := safeNothing(req2, "load"); f != nil {
				return f
			}
		case "rt":
			if base.Status != "ok" {
				return nil
			}
			type mk struct {
				p   *m.Program
				pos int
			}
			var reached bool
			if v, ok := c.Memo[mk{cs.P, cs.F.Pos}]; ok {
				reached = v.(bool)
			} else {
				marked, _ := withConstruct(cs.P, cs.F.Pos, "marker")
				mr := c.SB.Do(c17Req(marked))
				if mr.Fatal() || mr.Status == "infra" {
					return fatalFail(mr)
				}
				for _, cr := range mr.Calls {
					if cr.Name == "id" && len(cr.Args) == 1 && cr.Args[0] == `"@@"` {
						reached = true
					}
				}
				c.Memo[mk{cs.P, cs.F.Pos}] = reached
			}
			faulty, top := withConstruct(cs.P, cs.F.Pos, cs.F.What)
			if cs.F.What == "parent-outside" && !top {
				return nil
			}
			// At the top level of an extending template only definitions are
			// executed (set, import, from, macro, use): the marker, a do tag, is
			// not, so reachability there follows from the kind of construct.
			direct := false // the construct is a direct child of the entry template's body
			if ins := c17Construct(cs.F.What); len(ins) > 0 {
				want, _ := jsonStr(ins[0])
				for _, n := range faulty.Tpl(faulty.Entry).Body {
					if got, _ := jsonStr(n); got == want {
						direct = true
					}
				}
			}
			if top && findExtendsN(cs.P.Tpl(cs.P.Entry).Body) && direct {
				// directly at the child's top level definitions and control flow
				// are executed (set, import, if, for, do), output tags are not;
				// inside an if / for there the marker run decides as usual
				switch cs.F.What {
				case "broken-import", "err-in-set", "err-in-if", "err-in-for-seq", "noniterable", "oversized-range":
					reached = true
				case "unknown-macro":
					return nil // its import is executed, its print is not
				default:
					reached = false
				}
			}
			r := c.SB.Do(c17Req(faulty))
			if r.Fatal() || r.Status == "infra" {
				return fatalFail(r)
			}
			if !reached {
				c.Ev.Label("rt-not-reached", 1)
				if r.Status != "ok" || r.Out != base.Out {
					return &Fail{Sig: "unreached-construct-changes-result", Expected: base.Out, Observed: r.Status + " " + r.Out + r.Err + "\n" + progSrc(faulty)}
				}
				return nil
			}
			c.Ev.Label("rt-reached", 1)
			if f := check(r, base.Out, "rt:"+cs.F.What); f != nil {
				f.Observed += "\nfaulty: " + progSrc(faulty)
				return f
			}
			if f := safeNothing(c17Req(faulty), "rt:"+cs.F.What); f != nil {
				return f
			}
		}
		return nil
	})

	cfg := gen.Cfg{ExprDepth: 2, BodyLen: 3, Nest: 3, Calls: true, If: true, For: true, Set: true, SetCap: true, FilterSec: true, Macros: true, Blocks: true}
	p.Run = func(c *Ctx) {
		nP := c.Share(c.Pick(700, 12000))
		complete := true
		for i := 0; i < nP; i++ {
			if sub.Failed(c) || c.Expired() {
				complete = false
				break
			}
			seed := int(Mix(c.Seed, uint64(c.Shard), uint64(i), 17) % (1 << 30))
			prog := rapid.Custom(func(t *rapid.T) *m.Program {
				switch rapid.IntRange(0, 5).Draw(t, "kind") {
				case 0:
					return gen.BuildInherit(gen.GenInherit(t))
				case 1, 2:
					return (&gen.G{T: t, C: gen.Cfg{Calls: true}}).IncludeProgram()
				case 3:
					return (&gen.G{T: t, C: gen.Cfg{Calls: true, ExprDepth: 2}}).MacroProgram()
				}
				return (&gen.G{T: t, C: cfg}).Program()
			}).Example(seed)
			base := c.SB.Do(c17Req(prog))
			if base.Fatal() || base.Status == "infra" {
				sub.Check(c, &c17Case{P: prog, F: c17Fault{Kind: "safe-ok"}})
				continue
			}
			if base.Status != "ok" {
				c.Ev.Label("skipped:base-program-fails", 1)
				continue
			}
			sub.Check(c, &c17Case{P: prog, F: c17Fault{Kind: "safe-ok"}})
			for k := 1; k <= base.NWrites; k++ {
				for mode := 0; mode < 2; mode++ {
					sub.Check(c, &c17Case{P: prog, F: c17Fault{Kind: "write", K: k, Mode: mode}})
				}
			}
			for k := 1; k <= base.NLoads; k++ {
				// the Load call fails; the template's reader fails half-way; at once
				for mode := 0; mode <= 2; mode++ {
					sub.Check(c, &c17Case{P: prog, F: c17Fault{Kind: "load", K: k, Mode: mode}})
				}
			}
			npos := countStmts(prog.Tpl(prog.Entry).Body)
			for pos := 0; pos < npos; pos++ {
				for wi, what := range c17Whats {
					// quick: a rotating subset of constructs per position
					if c.Quick() && (pos+wi+i)%6 != 0 {
						continue
					}
					sub.Check(c, &c17Case{P: prog, F: c17Fault{Kind: "rt", Pos: pos, What: what}})
				}
			}
		}
		c.Ev.S.Exhaustive["all_fault_points_of_drawn_programs"] = complete && !c.Quick()
	}
	Register(p)
}
