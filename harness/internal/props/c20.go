package props

import (
	"fmt"
	"regexp"
	"sort"
	"strconv"
	"strings"
	"unicode"

	"pgregory.net/rapid"

	"verif/internal/gen"
	m "verif/internal/model"
	"verif/internal/sb"
)

// C20: syntax errors are detected, and all reported positions are exact.

type c20Case struct {
	C14 c14Case `json:"spelt"`
	Tpl string  `json:"tpl"` // template under test
	// Kind: pos | trunc | inject | name
	Kind string `json:"kind"`
	Cut  int    `json:"cut,omitempty"`  // trunc: byte offset
	At   int    `json:"at,omitempty"`   // inject: token index
	What string `json:"what,omitempty"` // inject: unknown-tag | illegal:<c> | surplus
	Via  string `json:"via,omitempty"`  // name: direct | include | extends | import ; loader in P.Loader
	Nm   int    `json:"nm,omitempty"`   // name: 1 + index into c20BrokenNames (0: chosen by a hash of the source)
}

var c20KindMap = map[string]string{
	"TextNode": "Text", "PrintNode": "Print", "NameExpr": "Name", "NumberExpr": "Number", "StringExpr": "String", "BoolExpr": "Bool", "NullExpr": "Null",
	"IfNode": "If", "ForNode": "For", "SetNode": "Set", "DoNode": "Do", "FilterNode": "Filter", "BlockNode": "Block", "ExtendsNode": "Extends",
	"UseNode": "Use", "IncludeNode": "Include", "EmbedNode": "Embed", "MacroNode": "Macro", "ImportNode": "Import", "FromNode": "From", "TestExpr": "Test",
	"FuncExpr": "Func", "FilterExpr": "FilterX",
}

type anchor struct {
	kind      string
	line, col int
	alt       int // alternative column (-1 none)
}

// c20Spelt returns the source of the template under test with token positions.
func c20Spelt(cs *c20Case) (string, []m.Tok, []m.Pos) {
	prog := cs.C14.Q
	if prog == nil {
		prog = cs.C14.P
	}
	tp := prog.Tpl(cs.Tpl)
	toks := m.Tokens(tp.Body)
	ws := cs.C14.Ws[cs.Tpl]
	src, pos := m.Join(toks, func(i int, can string, must bool) string {
		w, ok := ws[i]
		if !ok {
			return can
		}
		if must && w == "" {
			return " "
		}
		return w
	})
	return src, toks, pos
}

func expectedAnchors(toks []m.Tok, pos []m.Pos) []anchor {
	var out []anchor
	prevText := false
	for i, t := range toks {
		if t.Kind == "text" {
			if t.Anchor == "Text" && !prevText {
				out = append(out, anchor{"Text", pos[i].Line, pos[i].Col, -1})
			}
			prevText = true
			continue
		}
		prevText = false
		if t.Anchor == "" {
			continue
		}
		a := anchor{t.Anchor, pos[i].Line, pos[i].Col + t.AOff, -1}
		if t.AAlt >= 0 {
			a.alt = pos[i].Col + t.AAlt
		}
		if t.AOff > 0 && strings.Contains(t.S[:t.AOff], "\n") {
			a.line += strings.Count(t.S[:t.AOff], "\n")
		}
		out = append(out, a)
	}
	return out
}

func observedAnchors(tree []sb.Node) []anchor {
	var out []anchor
	for i, n := range tree {
		k, ok := c20KindMap[n.Kind]
		if !ok {
			continue
		}
		_ = i
		out = append(out, anchor{k, n.Line, n.Off, -1})
	}
	return out
}

func sortAnchors(a []anchor) {
	sort.SliceStable(a, func(i, j int) bool {
		if a[i].line != a[j].line {
			return a[i].line < a[j].line
		}
		if a[i].kind != a[j].kind {
			return a[i].kind < a[j].kind
		}
		return a[i].col < a[j].col
	})
}

func anchorsStr(a []anchor) string {
	var b strings.Builder
	for _, x := range a {
		fmt.Fprintf(&b, "%s@%d:%d ", x.kind, x.line, x.col)
	}
	return b.String()
}

// mustFail reports whether a prefix of length k must be rejected: k lies
// inside a delimiter pair or inside an open body-carrying construct.
func mustFail(toks []m.Tok, pos []m.Pos, k int) bool {
	var stack []int
	for i, t := range toks {
		start, end := pos[i].Byte, pos[i].Byte+len(t.S)
		switch t.Kind {
		case "open":
			j := i + 1
			for j < len(toks) && toks[j].Kind != "close" {
				j++
			}
			if j < len(toks) {
				cend := pos[j].Byte + len(toks[j].S)
				if k >= end && k < cend {
					return true
				}
			}
		case "comment":
			if k >= start+2 && k < end {
				return true
			}
		}
		if t.BodyOpen {
			stack = append(stack, end)
		}
		if t.BodyClose && len(stack) > 0 {
			bodyStart := stack[len(stack)-1]
			stack = stack[:len(stack)-1]
			if k >= bodyStart && k < end {
				return true
			}
		}
	}
	return false
}

func init() {
	p := &Property{
		ID:        "C20",
		Level:     "exploration",
		Technique: "property-based testing (rapid) with a position-tracking printer as oracle; exhaustive truncation at every byte offset and error injection at every token boundary of generated templates",
		Rule: "model programs printed under spellings that put newlines, tabs and CRLF anywhere the spelling allows (text, string literals, comments, between tokens of multi-line tags), with multi-byte characters: (p) positions of every node of the parsed tree against the printer's line / byte column of each anchor token (first byte of a text run, of '{{', of a tag's name, of a literal or name, of the name of a called function or applied filter, of the first word of a test; for strings the quote or the first content byte); " +
			"(t) every byte offset of every generated template as truncation point - inside a delimiter pair or an open body-carrying construct Parse must return an error; (i) at every token boundary of every tag: an unknown tag name, an illegal character (! $ @ `), a number where a name is required (set / block / macro / both variables of a for) or a surplus number literal before the closing delimiter - Parse must return an error located at that token; " +
			"(m) marker templates assembled from fragments with line breaks in text, comments, strings, interpolations, verbatim sections and tags: every name mk<k>z and number 9<kk> occurs once and its node must report the line / byte column where it is found (inside interpolations too), an unknown tag appended must be reported at its name; " +
			"(n) a broken template loaded by name through memory and filesystem loaders, directly and via include / extends / import - the error identifies the template. " +
			"Non-trivial: (p) the template spans >= 2 lines; (t)/(i) the fault lies on a line > 1 or inside a nested construct; distinct by (source, fault).",
		Assumptions: []string{"the printer (model.Join) is the position oracle: it knows the byte offset, line and column of every token it emits", "string interpolation and verbatim sections are not used in position checks (their inner positions are not anchored by the statement)"},
	}
	sub := NewSub(p, "syntax", func(c *Ctx, cs *c20Case) *Fail {
		src, toks, pos := c20Spelt(cs)
		lines := strings.Count(src, "\n") + 1
		switch cs.Kind {
		case "pos":
			r := c.SB.Do(&sb.Req{Op: "parse", Env: "raw", Entry: src, WantTree: true})
			c.Ev.Count("pos\x00"+src, lines >= 2, "kind:pos", "status:"+r.Status)
			if lines >= 2 {
				c.Ev.Sample(map[string]interface{}{"kind": "pos", "source": src})
			}
			if r.Fatal() || r.Status == "infra" {
				return fatalFail(r)
			}
			if r.Status != "ok" {
				return &Fail{Sig: "pos:well-formed-template-rejected", Expected: "parse ok", Observed: r.Err + "\nsource: " + src}
			}
			want, got := expectedAnchors(toks, pos), observedAnchors(r.Tree)
			sortAnchors(want)
			sortAnchors(got)
			if len(want) != len(got) {
				return &Fail{Sig: "pos:node-count", Expected: anchorsStr(want), Observed: anchorsStr(got) + "\nsource: " + src}
			}
			for i := range want {
				w, g := want[i], got[i]
				if w.kind != g.kind || w.line != g.line || (w.col != g.col && (w.alt < 0 || w.alt != g.col)) {
					return &Fail{Sig: "pos:" + w.kind, Expected: fmt.Sprintf("%s at line %d column %d", w.kind, w.line, w.col),
						Observed: fmt.Sprintf("%s at line %d column %d\nexpected: %s\nobserved: %s\nsource: %q", g.kind, g.line, g.col, anchorsStr(want), anchorsStr(got), src)}
				}
			}
		case "trunc":
			if cs.Cut <= 0 || cs.Cut >= len(src) {
				return nil
			}
			cut := src[:cs.Cut]
			r := c.SB.Do(&sb.Req{Op: "parse", Env: "raw", Entry: cut})
			must := mustFail(toks, pos, cs.Cut)
			nt := must && (strings.Contains(cut, "\n") || toks[tokAt(toks, pos, cs.Cut)].Depth > 0)
			c.Ev.Count("trunc\x00"+cut, nt, "kind:trunc", fmt.Sprintf("must-fail:%v", must), "status:"+r.Status)
			if r.Fatal() || r.Status == "infra" {
				return fatalFail(r)
			}
			if must && r.Status != "error" {
				return &Fail{Sig: "trunc:accepted", Expected: "error (cut inside a delimiter pair or an open block)", Observed: "accepted: " + cut}
			}
		case "inject":
			bad, line, col, ok := c20Inject(toks, pos, src, cs)
			if !ok {
				return nil
			}
			r := c.SB.Do(&sb.Req{Op: "parse", Env: "raw", Entry: bad})
			nt := line > 1 || toks[cs.At].Depth > 0
			c.Ev.Count("inject\x00"+bad, nt, "kind:inject", "what:"+strings.SplitN(cs.What, ":", 2)[0], "status:"+r.Status)
			if nt {
				c.Ev.Sample(map[string]interface{}{"kind": "inject", "what": cs.What, "source": bad, "error_expected_at": fmt.Sprintf("%d:%d", line, col)})
			}
			if r.Fatal() || r.Status == "infra" {
				return fatalFail(r)
			}
			if r.Status != "error" {
				return &Fail{Sig: "inject:accepted:" + strings.SplitN(cs.What, ":", 2)[0], Expected: "syntax error", Observed: "accepted: " + bad}
			}
			if !r.ErrHas || r.ErrLine != line || r.ErrOff != col {
				return &Fail{Sig: "inject:position:" + strings.SplitN(cs.What, ":", 2)[0], Expected: fmt.Sprintf("error at line %d column %d", line, col),
					Observed: fmt.Sprintf("%s (position %d:%d, has=%v)\nsource: %q", r.Err, r.ErrLine, r.ErrOff, r.ErrHas, bad)}
			}
		case "name":
			bad, _, _, ok := c20Inject(toks, pos, src, cs)
			if strings.HasPrefix(cs.What, "broken:") {
				// one of every kind of parse failure, after the template's own text
				k, _ := strconv.Atoi(cs.What[len("broken:"):])
				bad, ok = src+"\n"+c17Broken[k%len(c17Broken)], true
				if r := c.SB.Do(&sb.Req{Op: "parse", Env: "raw", Entry: src}); r.Status != "ok" {
					bad = "first line\n" + c17Broken[k%len(c17Broken)]
				}
			}
			if cs.What == "missing" {
				bad, ok = "missing", true // the named template does not exist at all
			}
			if cs.What == "loaderr" {
				bad, ok = "fine", true // a loadable template whose load fails
			}
			if !ok {
				return nil
			}
			bname := c20BrokenNames[int(hashStr(bad+cs.Via)%uint64(len(c20BrokenNames)))]
			if cs.Nm > 0 && cs.Nm <= len(c20BrokenNames) {
				bname = c20BrokenNames[cs.Nm-1]
			}
			tpls := map[string]string{bname: bad, "entry.twig": "x{% include '" + bname + "' %}", "child.twig": "{% extends '" + bname + "' %}", "imp.twig": "{% import '" + bname + "' as b %}"}
			for n, s := range cs.C14.P.Sources() {
				if n != cs.Tpl {
					tpls[n] = s
				}
			}
			if cs.What == "missing" {
				delete(tpls, bname)
			}
			entry := map[string]string{"direct": bname, "include": "entry.twig", "extends": "child.twig", "import": "imp.twig"}[cs.Via]
			loader := cs.C14.P.Loader
			if loader == "" {
				loader = "memory"
			}
			req := &sb.Req{Op: "exec", Env: "core", Loader: loader, Templates: tpls, Entry: entry}
			if cs.What == "loaderr" {
				// the load of the named template is the first (direct) or second one
				req.LoadFailAt = map[bool]int{true: 1, false: 2}[cs.Via == "direct"]
			}
			r := c.SB.Do(req)
			c.Ev.Count("name\x00"+cs.Via+loader+bad, true, "kind:name", "via:"+cs.Via, "loader:"+loader, "what:"+strings.SplitN(cs.What, ":", 2)[0])
			if r.Fatal() || r.Status == "infra" {
				return fatalFail(r)
			}
			if r.Status != "error" {
				return &Fail{Sig: "name:accepted", Expected: "error", Observed: r.Out}
			}
			if !c20Names(r.Err, bname) && (r.ErrName != bname || strings.Contains(r.Err, "%!")) {
				return &Fail{Sig: "name:missing", Expected: "an error naming " + bname + " (Name() and message)", Observed: fmt.Sprintf("%s (Name()=%q)", r.Err, r.ErrName)}
			}
		}
		return nil
	})

	cfg := gen.Cfg{ExprDepth: 2, BodyLen: 3, Nest: 3, Calls: true, Comments: true, If: true, For: true, ForIf: true, LoopMeta: true,
		Set: true, SetCap: true, FilterSec: true, Macros: true, Blocks: true, Do: true, HostileText: true, NoInterp: true}
	genSpelt := func(t *rapid.T) (c14Case, string) {
		var prog *m.Program
		switch rapid.IntRange(0, 5).Draw(t, "kind") {
		case 0:
			prog = gen.BuildInherit(gen.GenInherit(t))
		case 1:
			prog = (&gen.G{T: t, C: gen.Cfg{Calls: true, NoInterp: true}}).IncludeProgram()
		case 2:
			prog = (&gen.G{T: t, C: gen.Cfg{Calls: true, ExprDepth: 2, NoInterp: true}}).MacroProgram()
		default:
			prog = (&gen.G{T: t, C: cfg}).Program()
		}
		cs := c14Respell(t, prog)
		tpl := prog.Tpls[rapid.IntRange(0, len(prog.Tpls)-1).Draw(t, "tpl")].Name
		return *cs, tpl
	}
	// (m) marker templates: source assembled from fragments that put newlines
	// into text, comments, strings, interpolations, verbatim sections and tags;
	// every name m<k> and number 9<k> occurs once, so the node that carries it
	// must report the line and byte column at which it is found in the source;
	// an unknown tag at the end must be reported at its name
	markers := NewSub(p, "markers", func(c *Ctx, cs *c20Marker) *Fail {
		r := c.SB.Do(&sb.Req{Op: "parse", Env: "raw", Entry: cs.Src, WantTree: true})
		c.Ev.Count("markers\x00"+cs.Src, strings.Count(cs.Src, "\n") >= 2, "kind:markers", "status:"+r.Status, fmt.Sprintf("interp:%v", strings.Contains(cs.Src, "#{")))
		if r.Fatal() || r.Status == "infra" {
			return fatalFail(r)
		}
		at := func(idx int) (int, int) {
			return 1 + strings.Count(cs.Src[:idx], "\n"), idx - (strings.LastIndex(cs.Src[:idx], "\n") + 1)
		}
		if cs.Bogus != "" {
			line, col := at(strings.Index(cs.Src, cs.Bogus))
			if r.Status != "error" {
				return &Fail{Sig: "markers:unknown-tag-accepted", Expected: "syntax error", Observed: "accepted: " + cs.Src}
			}
			if !r.ErrHas || r.ErrLine != line || r.ErrOff != col {
				return &Fail{Sig: "markers:error-position", Expected: fmt.Sprintf("error at line %d column %d", line, col),
					Observed: fmt.Sprintf("%s (position %d:%d, has=%v)\nsource: %q", r.Err, r.ErrLine, r.ErrOff, r.ErrHas, cs.Src)}
			}
			return nil
		}
		if r.Status != "ok" {
			return &Fail{Sig: "markers:well-formed-template-rejected", Expected: "parse ok", Observed: r.Err + "\nsource: " + cs.Src}
		}
		seen := map[string]int{}
		for _, n := range r.Tree {
			// the body of a verbatim section is a text run: it starts where its first byte stands
			if vb := c20VerbatimRe.FindString(n.Text); n.Kind == "TextNode" && vb != "" {
				line, col := at(strings.Index(cs.Src, vb))
				if n.Line != line || n.Off != col {
					return &Fail{Sig: "markers:pos:verbatim-text", Expected: fmt.Sprintf("text %q at line %d column %d", vb, line, col),
						Observed: fmt.Sprintf("line %d column %d\nsource: %q", n.Line, n.Off, cs.Src)}
				}
			}
			if (n.Kind == "NameExpr" && c20MarkerRe.MatchString(n.Text)) || (n.Kind == "NumberExpr" && strings.HasPrefix(n.Text, "9") && len(n.Text) >= 3) {
				seen[n.Text]++
				idx := strings.Index(cs.Src, n.Text)
				if idx < 0 || strings.LastIndex(cs.Src, n.Text) != idx {
					continue
				}
				line, col := at(idx)
				if n.Line != line || n.Off != col {
					return &Fail{Sig: "markers:pos:" + n.Kind, Expected: fmt.Sprintf("%s %s at line %d column %d", n.Kind, n.Text, line, col),
						Observed: fmt.Sprintf("line %d column %d\nsource: %q", n.Line, n.Off, cs.Src)}
				}
			}
		}
		for _, mk := range cs.Marks {
			if seen[mk] != 1 {
				return &Fail{Sig: "markers:node-missing", Expected: "one node for " + mk, Observed: fmt.Sprintf("%d nodes\nsource: %q", seen[mk], cs.Src)}
			}
		}
		return nil
	})
	p.Run = func(c *Ctx) {
		markers.Rapid(c, c.Share(c.Pick(4000, 300000)), genMarkers)
		sub.Rapid(c, c.Share(c.Pick(3000, 300000)), func(t *rapid.T) *c20Case {
			cs, tpl := genSpelt(t)
			return &c20Case{C14: cs, Tpl: tpl, Kind: "pos"}
		})
		// (t) and (i): for each generated template, all offsets / all boundaries
		nT := c.Share(c.Pick(300, 20000))
		var drawn []*c20Case
		for i := 0; i < nT; i++ {
			seed := int(Mix(c.Seed, uint64(c.Shard), uint64(i)) % (1 << 30))
			cs := rapid.Custom(func(t *rapid.T) *c20Case {
				s, tpl := genSpelt(t)
				return &c20Case{C14: s, Tpl: tpl}
			}).Example(seed)
			drawn = append(drawn, cs)
		}
		complete := true
		for _, base := range drawn {
			if sub.Failed(c) || c.Expired() {
				complete = false
				break
			}
			src, toks, _ := c20Spelt(base)
			for k := 1; k < len(src); k++ {
				cs := *base
				cs.Kind, cs.Cut = "trunc", k
				if !sub.Check(c, &cs) {
					break
				}
			}
			for i, tk := range toks {
				// (nothing is injected between the two words of an operator:
				// what precedes is then no operator, "x starts $with y", and the
				// first offending token is the word before the injection)
				if !tk.In || tk.Cont {
					continue
				}
				whats := []string{}
				if tk.Kind == "close" {
					whats = append(whats, "surplus")
				}
				if tk.Anchor != "" && tk.Kind == "word" && i > 0 && toks[i-1].Kind == "open" && strings.HasPrefix(toks[i-1].S, "{%") {
					whats = append(whats, "unknown-tag")
				}
				whats = append(whats, "illegal:"+string("!$@`"[i%4]))
				if i > 0 && tk.Kind == "word" && (toks[i-1].S == "." || toks[i-1].S == "|") && toks[i-1].Kind != "text" {
					whats = append(whats, "bad-operand") // a string where an attribute or filter name belongs
				}
				// a number where the grammar wants a name: the variable of a set,
				// the name of a block or macro, either variable of a for
				if tk.Kind == "word" && i >= 2 {
					head := func(j int, names ...string) bool {
						if j < 1 || toks[j].Kind != "word" || toks[j-1].Kind != "open" {
							return false
						}
						for _, n := range names {
							if toks[j].S == n {
								return true
							}
						}
						return false
					}
					if head(i-1, "for", "set", "block", "macro") || (toks[i-1].S == "," && head(i-3, "for")) {
						whats = append(whats, "bad-name")
					}
				}
				for _, w := range whats {
					cs := *base
					cs.Kind, cs.At, cs.What = "inject", i, w
					if !sub.Check(c, &cs) {
						break
					}
				}
			}
		}
		c.Ev.S.Exhaustive["all_offsets_and_boundaries_of_drawn_templates"] = complete
		// (n) names
		sub.Rapid(c, c.Share(c.Pick(1500, 100000)), func(t *rapid.T) *c20Case {
			s, tpl := genSpelt(t)
			s.P.Loader = rapid.SampledFrom([]string{"memory", "fs"}).Draw(t, "loader")
			toks := m.Tokens(s.Q.Tpl(tpl).Body)
			var ins []int
			for i, tk := range toks {
				if tk.In && !tk.Cont {
					ins = append(ins, i)
				}
			}
			cs := &c20Case{C14: s, Tpl: tpl, Kind: "name", Via: rapid.SampledFrom([]string{"direct", "include", "extends", "import"}).Draw(t, "via"), What: "illegal:!"}
			if len(ins) > 0 {
				cs.At = rapid.SampledFrom(ins).Draw(t, "at")
			}
			if rapid.Bool().Draw(t, "brokenkind") {
				cs.What = "broken:" + strconv.Itoa(rapid.IntRange(0, len(c17Broken)-1).Draw(t, "bk"))
			} else if k := rapid.IntRange(0, 5).Draw(t, "missingkind"); k == 0 {
				cs.What = "missing"
			} else if k == 1 {
				// the loader itself fails, with an error that does not mention the name
				cs.What = "loaderr"
			}
			cs.Nm = rapid.IntRange(1, len(c20BrokenNames)).Draw(t, "nm")
			return cs
		})
	}
	Register(p)
}

func tokAt(toks []m.Tok, pos []m.Pos, k int) int {
	for i := len(toks) - 1; i >= 0; i-- {
		if pos[i].Byte < k {
			return i
		}
	}
	return 0
}

// c20Inject builds the broken source: the fault is placed at token cs.At (which
// lies inside a delimiter pair). It returns the source and the expected error
// position.
func c20Inject(toks []m.Tok, pos []m.Pos, src string, cs *c20Case) (string, int, int, bool) {
	i := cs.At
	if i <= 0 || i >= len(toks) || !toks[i].In {
		return "", 0, 0, false
	}
	at := pos[i].Byte
	line, col := pos[i].Line, pos[i].Col
	switch {
	case cs.What == "unknown-tag":
		return src[:at] + "frobnicate" + src[at+len(toks[i].S):], line, col, true
	case strings.HasPrefix(cs.What, "illegal:"):
		ch := cs.What[len("illegal:"):]
		// inserted as its own token in front of token i
		return src[:at] + ch + " " + src[at:], line, col, true
	case cs.What == "bad-operand":
		return src[:at] + "'q'" + src[at+len(toks[i].S):], line, col, true
	case cs.What == "bad-name":
		return src[:at] + "9" + src[at+len(toks[i].S):], line, col, true
	case cs.What == "surplus":
		if toks[i].Kind != "close" {
			return "", 0, 0, false
		}
		// a blank first, so that the literal cannot fuse with the token before
		return src[:at] + " 7 " + src[at:], line, col + 1, true
	}
	return "", 0, 0, false
}

// c20BrokenNames are the names under which the broken template is loaded.
var c20BrokenNames = []string{"broken.twig", "promo%20banner.html", "b%d.twig", "dir/sub file.txt", "ünï.twig", "100%.js", "e", "load", "in"}

// c20Names reports whether an error message identifies a template: its name
// occurs in the message as a word of its own, not as letters inside another
// word (the template "e" is not named by "injected loader failure").
func c20Names(msg, name string) bool {
	word := func(r rune) bool { return r == '_' || unicode.IsLetter(r) || unicode.IsDigit(r) }
	rs, ns := []rune(msg), []rune(name)
	for i := 0; i+len(ns) <= len(rs); i++ {
		if string(rs[i:i+len(ns)]) != name {
			continue
		}
		if i > 0 && word(rs[i-1]) && word(ns[0]) {
			continue
		}
		if i+len(ns) < len(rs) && word(rs[i+len(ns)]) && word(ns[len(ns)-1]) {
			continue
		}
		return true
	}
	return false
}

// c20Marker is a template assembled from fragments with unique marker names.
type c20Marker struct {
	Src   string   `json:"src"`
	Marks []string `json:"marks"`           // names and numbers that must each be one node
	Bogus string   `json:"bogus,omitempty"` // the unknown tag name appended, if any
}

var c20MarkerRe = regexp.MustCompile(`^mk[0-9]+z$`)
var c20VerbatimRe = regexp.MustCompile(`^vb[0-9]+z`)

func genMarkers(t *rapid.T) *c20Marker {
	cs := &c20Marker{}
	k := 0
	name := func() string {
		k++
		s := fmt.Sprintf("mk%dz", k)
		cs.Marks = append(cs.Marks, s)
		return s
	}
	mark := func() string {
		if rapid.IntRange(0, 3).Draw(t, "num") == 0 {
			k++
			s := fmt.Sprintf("9%02d", k)
			cs.Marks = append(cs.Marks, s)
			return s
		}
		return name()
	}
	ws := func() string {
		return rapid.SampledFrom([]string{" ", " ", "\n", "\r\n", "\t", "  \n ", "\n\n"}).Draw(t, "ws")
	}
	pick := func(xs ...string) string { return rapid.SampledFrom(xs).Draw(t, "pick") }
	var frag func(d int) string
	expr := func() string {
		switch rapid.IntRange(0, 7).Draw(t, "expr") {
		case 0:
			return mark()
		case 1:
			return "'l1" + ws() + "l2'" + ws() + "~" + ws() + mark()
		case 2:
			// an interpolation with line breaks inside, a marker inside and one after
			tail := pick("", "\n")
			if rapid.IntRange(0, 2).Draw(t, "second") == 0 {
				tail = "#{" + ws() + mark() + "}"
			}
			return "\"p#{" + ws() + mark() + ws() + "}q" + tail + "\"" + ws() + "~" + ws() + mark()
		case 3:
			return "{a:" + ws() + mark() + "," + ws() + "b:" + ws() + "[" + mark() + "," + ws() + mark() + "]}"
		case 4:
			return mark() + ws() + "is" + " defined" + ws() + "?" + ws() + mark() + ws() + ":" + ws() + "\"x" + ws() + "y\""
		case 5:
			return "cat(" + ws() + mark() + "," + ws() + "\"#{" + mark() + ws() + "~" + ws() + "'" + ws() + "'}\"" + ws() + ")" + "|" + "up"
		case 6:
			return "(" + ws() + mark() + ws() + "+" + ws() + mark() + ")" + ws() + "*" + ws() + mark()
		}
		return name() + "." + "k" + "[" + ws() + mark() + ws() + "]"
	}
	frag = func(d int) string {
		switch rapid.IntRange(0, 9).Draw(t, "frag") {
		case 0:
			return pick("text", "a\nb", "\r\n", "é\n日本", "x { y } z\n")
		case 1:
			return "{#" + pick(" c ", "\n", " {{ m0 }}\n\n", "\r\n#") + "#}"
		case 2, 3:
			return "{{" + pick("", "-") + ws() + expr() + ws() + pick("", "-") + "}}"
		case 4:
			k++
			return "{%" + ws() + "verbatim" + ws() + "%}" + fmt.Sprintf("vb%dz", k) + pick("{{ mk0z }}", "\n{% if %}\n", "") + "{% endverbatim %}"
		case 5:
			return "{%" + ws() + "set" + ws() + "v" + ws() + "=" + ws() + expr() + ws() + "%}"
		case 6:
			if d > 0 {
				out := "{%" + ws() + "if" + ws() + expr() + ws() + "%}" + frag(d-1)
				switch rapid.IntRange(0, 2).Draw(t, "branch") {
				case 1:
					out += "{% else %}" + frag(d-1)
				case 2:
					out += "{%" + ws() + "elseif" + ws() + expr() + ws() + "%}" + frag(d-1)
				}
				return out + "{%" + ws() + "endif" + ws() + "%}"
			}
		case 7:
			if d > 0 {
				return "{%" + ws() + "for" + ws() + "i" + ws() + "in" + ws() + expr() + ws() + "%}" + frag(d-1) + frag(d-1) + "{% endfor %}"
			}
		case 8:
			return "{%" + ws() + "include" + ws() + "\"t#{" + ws() + mark() + ws() + "}\"" + ws() + "with" + ws() + "{x:" + ws() + mark() + "}" + ws() + "%}"
		}
		return "{% set c %}" + pick("cap\n", "") + "{{ " + mark() + " }}" + "{% endset %}"
	}
	var b strings.Builder
	for i, n := 0, rapid.IntRange(1, 6).Draw(t, "nfrag"); i < n; i++ {
		b.WriteString(frag(2))
	}
	if rapid.IntRange(0, 2).Draw(t, "bogus") == 0 {
		cs.Bogus = "bogustag"
		b.WriteString(pick("", "\n", " ") + "{%" + ws() + cs.Bogus + ws() + "%}")
	}
	cs.Src = b.String()
	return cs
}
