package props

import (
	"fmt"
	"strings"

	"pgregory.net/rapid"

	"verif/internal/sb"
)

// C04: operator precedence and associativity follow the operator table.

// The documented operator table (the specification of this check).
var c04Prec = map[string]int{
	"or": 10, "and": 15, "b-or": 16, "b-xor": 17, "b-and": 18,
	"==": 20, "!=": 20, "<": 20, "<=": 20, ">": 20, ">=": 20, "not in": 20, "in": 20, "matches": 20,
	"starts with": 20, "ends with": 20, "..": 20,
	"+": 30, "-": 30, "~": 40, "*": 60, "/": 60, "//": 60, "%": 60, "is": 100, "is not": 100, "**": 200,
}
var c04Unary = map[string]int{"not": 50, "-": 500, "+": 500}

var c04Ops = []string{"or", "and", "b-or", "b-xor", "b-and", "==", "!=", "<", "<=", ">", ">=", "not in", "in", "matches",
	"starts with", "ends with", "..", "+", "-", "~", "*", "/", "//", "%", "is", "is not", "**"}
var c04Unaries = []string{"not", "-", "+"}
var c04Tests = []string{"odd", "even", "nullish"}
var c04Names = []string{"a", "b", "c", "d", "e", "f", "g", "h", "i", "j", "k", "l", "m", "n"}

// c04Case describes an operator chain: operand i has prefix unaries Pre[i];
// Ops[i] stands between operand i and i+1 (for is / is not the right operand is
// a test name). Cond: 0 none, 1 "? x : y", 2 "? x : y ? z : w", 3 "? x + y : z",
// 4 / 5 ladders of three / four rungs, 6 conditionals in both branches, 7 a
// ladder with operators inside its rungs.
type c04Case struct {
	Ops    []string   `json:"ops"`
	Pre    [][]string `json:"pre,omitempty"`
	Cond   int        `json:"cond,omitempty"`
	Redund bool       `json:"redundant_parens,omitempty"`
}

type c04tok struct {
	kind string // operand | op | unary | test | ? | :
	s    string
}

func (cs *c04Case) tokens() []c04tok {
	var toks []c04tok
	pre := func(i int) {
		if i < len(cs.Pre) {
			for _, u := range cs.Pre[i] {
				toks = append(toks, c04tok{"unary", u})
			}
		}
	}
	ni, ti := 0, 0
	operand := func(i int) {
		pre(i)
		toks = append(toks, c04tok{"operand", c04Names[ni%len(c04Names)]})
		ni++
	}
	operand(0)
	for i, op := range cs.Ops {
		toks = append(toks, c04tok{"op", op})
		if op == "is" || op == "is not" {
			toks = append(toks, c04tok{"test", c04Tests[ti%len(c04Tests)]})
			ti++
		} else {
			operand(i + 1)
		}
	}
	name := func() c04tok { t := c04tok{"operand", c04Names[ni%len(c04Names)]}; ni++; return t }
	switch cs.Cond {
	case 1:
		toks = append(toks, c04tok{"?", "?"}, name(), c04tok{":", ":"}, name())
	case 2:
		toks = append(toks, c04tok{"?", "?"}, name(), c04tok{":", ":"}, name(), c04tok{"?", "?"}, name(), c04tok{":", ":"}, name())
	case 3:
		toks = append(toks, c04tok{"?", "?"}, name(), c04tok{"op", "+"}, name(), c04tok{":", ":"}, name())
	case 4, 5:
		// an else-if ladder of 3 (4) rungs
		toks = append(toks, c04tok{"?", "?"}, name())
		for k := 0; k < cs.Cond-2; k++ {
			toks = append(toks, c04tok{":", ":"}, name(), c04tok{"?", "?"}, name())
		}
		toks = append(toks, c04tok{":", ":"}, name())
	case 6:
		// a conditional in the true branch, another in the else branch
		toks = append(toks, c04tok{"?", "?"}, name(), c04tok{"?", "?"}, name(), c04tok{":", ":"}, name(), c04tok{":", ":"}, name(), c04tok{"?", "?"}, name(), c04tok{":", ":"}, name())
	case 7:
		// operators inside the rungs of a ladder
		toks = append(toks, c04tok{"?", "?"}, name(), c04tok{":", ":"}, name(), c04tok{"op", "or"}, name(), c04tok{"?", "?"}, name(), c04tok{"op", "~"}, name(), c04tok{":", ":"}, name(), c04tok{"op", "=="}, name(), c04tok{"?", "?"}, name(), c04tok{":", ":"}, name())
	}
	return toks
}

func (cs *c04Case) source() string {
	var parts []string
	for _, t := range cs.tokens() {
		parts = append(parts, t.s)
	}
	s := strings.Join(parts, " ")
	// unary minus/plus are written tight, like the test-suite does
	return s
}

// c04node is the model's tree.
type c04node struct {
	op   string
	kids []*c04node
}

func (n *c04node) sexpr() string {
	switch {
	case len(n.kids) == 0:
		return n.op
	case n.op == "?":
		return "(? " + n.kids[0].sexpr() + " " + n.kids[1].sexpr() + " " + n.kids[2].sexpr() + ")"
	case strings.HasPrefix(n.op, "u"):
		return "(" + n.op + " " + n.kids[0].sexpr() + ")"
	}
	return "(" + n.op + " " + n.kids[0].sexpr() + " " + n.kids[1].sexpr() + ")"
}

// paren renders the tree fully parenthesised.
func (n *c04node) paren() string {
	switch {
	case len(n.kids) == 0:
		if strings.HasPrefix(n.op, "<") {
			return strings.Trim(n.op, "<>")
		}
		return n.op
	case n.op == "?":
		return "(" + n.kids[0].paren() + " ? " + n.kids[1].paren() + " : " + n.kids[2].paren() + ")"
	case strings.HasPrefix(n.op, "u"):
		return "(" + n.op[1:] + " " + n.kids[0].paren() + ")"
	case n.op == "is" || n.op == "is not":
		return "(" + n.kids[0].paren() + " " + n.op + " " + n.kids[1].paren() + ")"
	}
	return "(" + n.kids[0].paren() + " " + n.op + " " + n.kids[1].paren() + ")"
}

// c04parser is an independent precedence-climbing parser over the table.
type c04parser struct {
	toks []c04tok
	pos  int
}

func (p *c04parser) peek() *c04tok {
	if p.pos < len(p.toks) {
		return &p.toks[p.pos]
	}
	return nil
}

func (p *c04parser) primary() *c04node {
	t := p.peek()
	if t != nil && t.kind == "unary" {
		p.pos++
		x := p.expr(c04Unary[t.s])
		return &c04node{op: "u" + t.s, kids: []*c04node{x}}
	}
	p.pos++
	return &c04node{op: t.s}
}

func (p *c04parser) expr(minPrec int) *c04node {
	left := p.primary()
	for {
		t := p.peek()
		if t == nil || t.kind != "op" || c04Prec[t.s] < minPrec {
			return left
		}
		p.pos++
		if t.s == "is" || t.s == "is not" {
			test := p.peek()
			p.pos++
			left = &c04node{op: t.s, kids: []*c04node{left, {op: "<" + test.s + ">"}}}
			continue
		}
		next := c04Prec[t.s] + 1
		if t.s == "**" {
			next = c04Prec[t.s]
		}
		right := p.expr(next)
		left = &c04node{op: t.s, kids: []*c04node{left, right}}
	}
}

func (p *c04parser) full() *c04node {
	e := p.expr(0)
	if t := p.peek(); t != nil && t.kind == "?" {
		p.pos++
		a := p.full()
		p.pos++ // ':'
		b := p.full()
		return &c04node{op: "?", kids: []*c04node{e, a, b}}
	}
	return e
}

func c04Model(cs *c04Case) *c04node {
	p := &c04parser{toks: cs.tokens()}
	return p.full()
}

// groupings reports whether the chain admits more than one grouping.
func (cs *c04Case) nontrivial() bool {
	nu := 0
	for _, pr := range cs.Pre {
		nu += len(pr)
	}
	return len(cs.Ops) >= 2 || (len(cs.Ops) >= 1 && (nu > 0 || cs.Cond > 0))
}

var c04Valuations = []map[string]sb.V{
	valuation(2, 3, 5, 7, 11, 13, 17, 19, 23, 29, 31, 37, 41, 43),
	valuation(0.5, 4, 1, 0, 9, 2, 0.25, 6, 1, 8, 3, 0, 5, 1),
	valuation(1, 0, 2, 1, 0, 3, 1, 0, 2, 5, 0, 1, 4, 0),
}

func valuation(xs ...float64) map[string]sb.V {
	m := map[string]sb.V{}
	for i, x := range xs {
		m[c04Names[i]] = sb.V{K: "num", N: x}
	}
	return m
}

func init() {
	p := &Property{
		ID:        "C04",
		Level:     "exploration",
		Technique: "bounded-exhaustive enumeration of operator chains + property-based testing (rapid) against an independent precedence-climbing parenthesiser over the documented table; AST-shape and value oracles",
		Rule: "operator sequences over the 27 binary operators, operands with optional stacked unary prefixes (not, -, +), optional trailing / nested / inner conditional: (a) every chain of 1..K binary operators (K=3 quick, 4 thorough) plain, and for chains < K with one unary prefix at each operand position and a trailing conditional; (b) random chains of 5-12 operators. " +
			"Oracles: (1) shape - stick's AST for {{ e }} with GroupExpr erased equals the tree of an independent precedence-climbing parser over the documented table; (2) value - {{ e }} and its fully parenthesised form render identically under 3 valuations, and adding the model's parentheses never changes the AST. " +
			"Non-trivial: >= 2 operators, or an operator plus a unary prefix or conditional (more than one grouping exists); distinct by token sequence. Trailing forms also include else-if ladders of 3 and 4 conditionals, conditionals in both branches of a conditional, and operators inside the rungs of a ladder.",
		Assumptions: []string{"the operator table (precedences 10..200, ** right-associative, not 50, unary +/- 500, conditional loosest and right-nested) is copied from the documentation as the specification"},
	}
	judgeShape := func(cs *c04Case, it sb.Item, itParen sb.Item) *Fail {
		want := c04Model(cs).sexpr()
		if it.Status == "panic" {
			return &Fail{Sig: "panic:" + it.Site, Expected: want, Observed: it.Msg}
		}
		if it.Status != "ok" {
			return &Fail{Sig: "shape:rejected", Expected: want, Observed: "parse error: " + it.Msg + " for {{ " + cs.source() + " }}"}
		}
		if it.S != want {
			return &Fail{Sig: "shape:grouping", Expected: want, Observed: it.S + " for {{ " + cs.source() + " }}"}
		}
		if itParen.Status != "ok" || itParen.S != want {
			return &Fail{Sig: "shape:restating-parentheses", Expected: want, Observed: itParen.Status + " " + itParen.S + itParen.Msg + " for {{ " + c04Model(cs).paren() + " }}"}
		}
		return nil
	}
	shape := NewSub(p, "shape", func(c *Ctx, cs *c04Case) *Fail {
		src, par := "{{ "+cs.source()+" }}", "{{ "+c04Model(cs).paren()+" }}"
		r := c.SB.Do(&sb.Req{Op: "sexpr", Strs: []string{src, par}})
		if r.Fatal() || r.Status != "ok" {
			return fatalFail(r)
		}
		c.Ev.Count(src, cs.nontrivial(), "shape", fmt.Sprintf("chain-len:%d", len(cs.Ops)))
		if cs.nontrivial() {
			c.Ev.Sample(map[string]string{"expr": cs.source(), "model_grouping": c04Model(cs).paren()})
		}
		return judgeShape(cs, r.Items[0], r.Items[1])
	})
	value := NewSub(p, "value", func(c *Ctx, cs *c04Case) *Fail {
		src, par := "{{ "+cs.source()+" }}", "{{ "+c04Model(cs).paren()+" }}"
		c.Ev.Count("v"+src, cs.nontrivial(), "value")
		for vi, val := range c04Valuations {
			a := c.SB.Do(&sb.Req{Op: "exec", Env: "core", Loader: "string", Entry: src, Ctx: val})
			b := c.SB.Do(&sb.Req{Op: "exec", Env: "core", Loader: "string", Entry: par, Ctx: val})
			if a.Status == "infra" || b.Status == "infra" {
				return fatalFail(a)
			}
			if a.Fatal() || b.Fatal() {
				// totality is C02's business; the value relation is undecided here
				c.Ev.S.Discarded++
				continue
			}
			if a.Status != b.Status || a.Out != b.Out {
				return &Fail{Sig: "value:differs-from-parenthesised", Expected: fmt.Sprintf("%s -> %s %q (valuation %d)", par, b.Status, b.Out+b.Err, vi),
					Observed: fmt.Sprintf("%s -> %s %q", src, a.Status, a.Out+a.Err)}
			}
		}
		return nil
	})

	// shapeBatch checks many cases with two round trips.
	shapeBatch := func(c *Ctx, cases []*c04Case) bool {
		if len(cases) == 0 {
			return true
		}
		strs := make([]string, 0, 2*len(cases))
		for _, cs := range cases {
			strs = append(strs, "{{ "+cs.source()+" }}", "{{ "+c04Model(cs).paren()+" }}")
		}
		r := c.SB.DoOnce(&sb.Req{Op: "sexpr", Strs: strs, DeadlineMs: 10000})
		for i, cs := range cases {
			if r.Status == "ok" && len(r.Items) == len(strs) && judgeShape(cs, r.Items[2*i], r.Items[2*i+1]) == nil {
				c.Ev.Count(strs[2*i], cs.nontrivial(), "shape", fmt.Sprintf("chain-len:%d", len(cs.Ops)))
				if cs.nontrivial() && i == 0 {
					c.Ev.Sample(map[string]string{"expr": cs.source(), "model_grouping": c04Model(cs).paren()})
				}
				continue
			}
			if !shape.Check(c, cs) {
				return false
			}
		}
		return true
	}

	p.Run = func(c *Ctx) {
		K := c.Pick(3, 4)
		idx := 0
		var pending []*c04Case
		ok := true
		emit := func(cs *c04Case) {
			if !ok {
				return
			}
			pending = append(pending, cs)
			if len(pending) >= 200 {
				ok = shapeBatch(c, pending)
				pending = pending[:0]
			}
		}
		var rec func(ops []string)
		rec = func(ops []string) {
			if !ok {
				return
			}
			if len(ops) > 0 {
				idx++
				if c.Mine(idx) {
					emit(&c04Case{Ops: append([]string(nil), ops...)})
					if len(ops) < K {
						// one unary prefix at each operand position, a trailing conditional, both
						for pos := 0; pos <= len(ops); pos++ {
							if pos > 0 && (ops[pos-1] == "is" || ops[pos-1] == "is not") {
								continue
							}
							for _, u := range c04Unaries {
								pre := make([][]string, len(ops)+1)
								pre[pos] = []string{u}
								emit(&c04Case{Ops: append([]string(nil), ops...), Pre: pre})
								if pos == 0 {
									emit(&c04Case{Ops: append([]string(nil), ops...), Pre: pre, Cond: 1})
								}
							}
						}
						for cond := 1; cond <= 7; cond++ {
							emit(&c04Case{Ops: append([]string(nil), ops...), Cond: cond})
						}
					}
					// value oracle: all short chains, a deterministic sample of longer ones
					if len(ops) <= 2 || Mix(c.Seed, uint64(idx))%16 == 0 {
						if !value.Check(c, &c04Case{Ops: append([]string(nil), ops...)}) {
							ok = false
						}
					}
				}
			}
			if len(ops) == K {
				return
			}
			for _, op := range c04Ops {
				rec(append(ops, op))
			}
		}
		rec(nil)
		if ok {
			ok = shapeBatch(c, pending)
		}
		c.Ev.S.Exhaustive[fmt.Sprintf("chains_len<=%d", K)] = ok && !c.Expired()

		gen := func(t *rapid.T) *c04Case {
			n := rapid.IntRange(2, 12).Draw(t, "n")
			cs := &c04Case{Cond: rapid.SampledFrom([]int{0, 0, 1, 2, 3, 4, 5, 6, 7}).Draw(t, "cond")}
			cs.Pre = make([][]string, n+1)
			for i := 0; i < n; i++ {
				cs.Ops = append(cs.Ops, rapid.SampledFrom(c04Ops).Draw(t, "op"))
			}
			for i := 0; i <= n; i++ {
				if i > 0 && (cs.Ops[i-1] == "is" || cs.Ops[i-1] == "is not") {
					continue
				}
				for k, m := 0, rapid.SampledFrom([]int{0, 0, 0, 1, 1, 2}).Draw(t, "nu"); k < m; k++ {
					cs.Pre[i] = append(cs.Pre[i], rapid.SampledFrom(c04Unaries).Draw(t, "u"))
				}
			}
			return cs
		}
		shape.Rapid(c, c.Share(c.Pick(20000, 500000)), gen)
		value.Rapid(c, c.Share(c.Pick(3000, 100000)), gen)
	}
	Register(p)
}
