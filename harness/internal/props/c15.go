package props

import (
	"fmt"
	"math"
	"math/big"
	"sort"
	"strconv"
	"strings"

	"pgregory.net/rapid"

	m "verif/internal/model"
	"verif/internal/sb"
)

// C15: coercions are total, uniform across Go types and mutually consistent.

type c15Case struct {
	Rel string `json:"rel"` // relation checked
	A   sb.V   `json:"a"`
	B   *sb.V  `json:"b,omitempty"`
	Src string `json:"src,omitempty"`
}

type kindRange struct {
	name     string
	min, max *big.Int
}

func bi(s string) *big.Int { x, _ := new(big.Int).SetString(s, 10); return x }

var intKinds = []kindRange{
	{"int", bi("-9223372036854775808"), bi("9223372036854775807")},
	{"int8", bi("-128"), bi("127")},
	{"int16", bi("-32768"), bi("32767")},
	{"int32", bi("-2147483648"), bi("2147483647")},
	{"int64", bi("-9223372036854775808"), bi("9223372036854775807")},
	{"uint", bi("0"), bi("18446744073709551615")},
	{"uint8", bi("0"), bi("255")},
	{"uint16", bi("0"), bi("65535")},
	{"uint32", bi("0"), bi("4294967295")},
	{"uint64", bi("0"), bi("18446744073709551615")},
	{"float32", bi("-16777216"), bi("16777216")},
	{"float64", bi("-9007199254740992"), bi("9007199254740992")},
	// defined types (type Status int, type Celsius float64, ...) and uintptr
	{"named:int", bi("-9007199254740992"), bi("9007199254740992")},
	{"named:int64", bi("-9007199254740992"), bi("9007199254740992")},
	{"named:uint8", bi("0"), bi("255")},
	{"named:float64", bi("-9007199254740992"), bi("9007199254740992")},
	{"uintptr", bi("0"), bi("9007199254740992")},
}

// intV builds the description of integer n carried by kind k (n must fit).
func intV(k string, n *big.Int) sb.V {
	switch k {
	case "int", "int64":
		return sb.V{K: "int64x:" + k, S: n.String()}
	case "uint", "uint64":
		return sb.V{K: "uint64x:" + k, S: n.String()}
	case "float64":
		f, _ := new(big.Float).SetInt(n).Float64()
		return sb.V{K: "fbits", S: strconv.FormatUint(math.Float64bits(f), 16)}
	}
	f, _ := new(big.Float).SetInt(n).Float64()
	return sb.V{K: k, N: f}
}

func fbitsV(f float64) sb.V { return sb.V{K: "fbits", S: strconv.FormatUint(math.Float64bits(f), 16)} }

var boundaryInts = []string{"0", "1", "-1", "2", "127", "128", "-128", "-129", "255", "256", "32767", "32768", "-32768", "65535", "65536",
	"999999", "1000000", "1000001", "-999999", "-1000000", "2147483647", "2147483648", "-2147483648", "4294967295", "4294967296",
	"16777216", "16777217", "9007199254740991", "9007199254740992", "9007199254740993", "-9007199254740992",
	"9223372036854775807", "-9223372036854775808", "18446744073709551615", "123456789", "100000000000000000000"}

func fits(k kindRange, n *big.Int) bool {
	if n.Cmp(k.min) < 0 || n.Cmp(k.max) > 0 {
		return false
	}
	return true
}

func unsupportedV(t *rapid.T) sb.V {
	opts := []sb.V{
		{K: "null"}, {K: "chan"}, {K: "func"}, {K: "complex", N: 2}, {K: "plain", N: 3},
		{K: "arr", E: []sb.V{{K: "num", N: 1}}}, {K: "hash", KS: []string{"a"}, E: []sb.V{{K: "num", N: 1}}},
		{K: "slice:int", E: []sb.V{{K: "num", N: 1}, {K: "num", N: 2}}}, {K: "array:str", E: []sb.V{{K: "str", S: "x"}}},
		{K: "map:str:int", KV: []sb.V{{K: "str", S: "k"}}, E: []sb.V{{K: "num", N: 1}}},
		{K: "nilptr:person"}, {K: "nilptr:int"}, {K: "nilptr:slice"}, {K: "nilptr:map"}, {K: "nilptr:plain"}, {K: "nilptr:string"},
		// typed nil pointers to types whose interface methods have value receivers
		{K: "nilptr:stringer"}, {K: "nilptr:number"}, {K: "nilptr:boolean"}, {K: "nilptr:decimal"}, {K: "nilptr:customsafe"},
		// ... and to types whose interface method is promoted, with a pointer receiver, from a struct embedded by value
		{K: "nilptr:promoted-stringer"}, {K: "nilptr:promoted-number"}, {K: "nilptr:promoted-boolean"},
		// struct values, and pointers to them, whose interface method is promoted from an embedded pointer or interface that is nil
		{K: "embednil:stringer"}, {K: "embednil:number"}, {K: "embednil:boolean"}, {K: "embednil:iface"}, {K: "embednil:safe"}, {K: "embednil:time"}, {K: "embednil:deep"}, {K: "ptr", E: []sb.V{{K: "embednil:deep"}}},
		{K: "ptr", E: []sb.V{{K: "embednil:stringer"}}}, {K: "ptr", E: []sb.V{{K: "embednil:iface"}}}, {K: "ptr", E: []sb.V{{K: "embednil:safe"}}},
		{K: "nilslice:int"}, {K: "nilmap:str"}, {K: "person", S: "n", N: 3}, {K: "ptr", E: []sb.V{{K: "plain", N: 1}}},
		{K: "ptr", E: []sb.V{{K: "person", S: "q", N: 1}}},
	}
	return rapid.SampledFrom(opts).Draw(t, "unsupported")
}

func numeralGen() *rapid.Generator[string] {
	return rapid.Custom(func(t *rapid.T) string {
		var b strings.Builder
		if rapid.IntRange(0, 3).Draw(t, "neg") == 0 {
			b.WriteByte('-')
		}
		nd := rapid.IntRange(1, 24).Draw(t, "nd")
		for i := 0; i < nd; i++ {
			b.WriteByte(byte('0' + rapid.IntRange(0, 9).Draw(t, "d")))
		}
		if rapid.Bool().Draw(t, "frac") {
			b.WriteByte('.')
			nf := rapid.IntRange(1, 24).Draw(t, "nf")
			for i := 0; i < nf; i++ {
				b.WriteByte(byte('0' + rapid.IntRange(0, 9).Draw(t, "d")))
			}
		}
		return b.String()
	})
}

func floatGen() *rapid.Generator[float64] {
	return rapid.OneOf(
		rapid.Float64(),
		rapid.SampledFrom([]float64{0, 1, -1, 0.5, 1e6, 999999, 1e6 - 0.5, 1e21, 1e-5, 1e-4, 123456.789, math.MaxFloat64, math.SmallestNonzeroFloat64,
			-math.MaxFloat64, 4503599627370496.5, 9007199254740993, 0.1, 0.30000000000000004, 1e15, 1e16, 1e20, 99999.99999999999}),
		rapid.Custom(func(t *rapid.T) float64 { return math.Float64frombits(rapid.Uint64().Draw(t, "bits")) }),
		rapid.Custom(func(t *rapid.T) float64 { return float64(rapid.IntRange(-2000000, 2000000).Draw(t, "i")) }),
	)
}

func wrapSafe(t *rapid.T, v sb.V) (sb.V, []string) {
	n := rapid.IntRange(1, 3).Draw(t, "nwrap")
	all := map[string]bool{}
	for i := 0; i < n; i++ {
		ts := rapid.SliceOfNDistinct(rapid.SampledFrom([]string{"html", "js", "css", "url", "html_attr", "x"}), 0, 3, func(s string) string { return s }).Draw(t, "types")
		for _, x := range ts {
			all[x] = true
		}
		kind := "safe"
		if rapid.IntRange(0, 2).Draw(t, "custom") == 0 {
			kind = "customsafe" // a SafeValue implementation that is not the library's
		}
		v = sb.V{K: kind, E: []sb.V{v}, TS: ts}
	}
	var u []string
	for k := range all {
		u = append(u, k)
	}
	sort.Strings(u)
	return v, u
}

func anyValue(t *rapid.T) sb.V {
	switch rapid.IntRange(0, 9).Draw(t, "vk") {
	case 0:
		return unsupportedV(t)
	case 1:
		return fbitsV(floatGen().Draw(t, "f"))
	case 2:
		return sb.V{K: "str", S: numeralGen().Draw(t, "numeral")}
	case 3:
		return sb.V{K: "str", S: rapid.SampledFrom([]string{"", "abc", "12abc", " 1", "1e3", "0x1A", "Inf", "NaN", "-", ".", "1.", ".5", "+1", "٣", "1_000", "true"}).Draw(t, "s")}
	case 4:
		return sb.V{K: "bool", B: rapid.Bool().Draw(t, "b")}
	case 5:
		return sb.V{K: rapid.SampledFrom([]string{"stringer", "ptrstringer"}).Draw(t, "sk"), S: rapid.SampledFrom([]string{"", "x", "12", "-3.5"}).Draw(t, "ss")}
	case 6:
		return sb.V{K: "number", N: float64(rapid.IntRange(-5, 5).Draw(t, "n")) / 2}
	case 7:
		return sb.V{K: "boolean", B: rapid.Bool().Draw(t, "b")}
	case 8:
		return sb.V{K: "decimal", S: numeralGen().Draw(t, "dec")}
	default:
		k := rapid.SampledFrom(intKinds).Draw(t, "ik")
		n := bi(rapid.SampledFrom(boundaryInts).Draw(t, "bn"))
		if !fits(k, n) {
			n = big.NewInt(int64(rapid.IntRange(0, 100).Draw(t, "small")))
		}
		return intV(k.name, n)
	}
}

func coerceEq(a, b sb.Item) bool {
	return a.Status == b.Status && a.S == b.S && a.NS == b.NS && a.B == b.B
}

func itemStr(i sb.Item) string {
	if i.Status != "ok" {
		return i.Status + ": " + i.Msg + " at " + i.Site
	}
	return fmt.Sprintf("string=%q number=%s bool=%v", i.S, i.NS, i.B)
}

func init() {
	p := &Property{
		ID:        "C15",
		Level:     "exploration",
		Technique: "property-based testing (rapid) of algebraic relations between the three coercions, with boundary-value grids per numeric kind",
		Rule: "Go values drawn by rapid: every numeric kind at its boundaries and at random, decimal numerals up to 24+24 digits, non-numeric strings, booleans, nil, typed nil pointers, slices, maps, structs, channels, funcs, types implementing exactly one of Stringer/Number/Boolean, decimals, all wrapped 0-3 times as safe values; nil pointers to types whose interface method has a value receiver or is promoted from an embedded struct. " +
			"Oracles (relations from the statement): no panic; fallback '' / 0 / false for unsupported kinds; same integer in two carrier kinds coerces identically; safe(v) coerces like v and nested wrappers flatten; true/false -> '1'/'' and 1/0; numeral -> nearest float64 (math/big); number(string(f)) == f for finite float64; integral |f| < 1e6 prints as a plain integer; {{ v }} prints CoerceString(v). " +
			"Non-trivial: the value is negative, fractional, >= 2^16 in magnitude, a boundary, wrapped, or of an unsupported kind; distinct by (relation, value).",
		Assumptions: []string{"math/big is the reference for decimal -> float64 rounding"},
	}
	sub := NewSub(p, "relation", func(c *Ctx, cs *c15Case) *Fail {
		vals := []sb.V{cs.A}
		if cs.B != nil {
			vals = append(vals, *cs.B)
		}
		r := c.SB.Do(&sb.Req{Op: "coerce", Vals: vals})
		if r.Fatal() || r.Status != "ok" {
			return fatalFail(r)
		}
		key, _ := jsonStr(cs)
		c.Ev.Count(key, c15NonTrivial(cs), "rel:"+cs.Rel)
		if c15NonTrivial(cs) {
			c.Ev.Sample(map[string]interface{}{"relation": cs.Rel, "a": cs.A, "b": cs.B, "observed": itemStr(r.Items[0])})
		}
		a := r.Items[0]
		if a.Status != "ok" {
			return &Fail{Sig: "panic:" + a.Site + ":" + normMsg(a.Msg), Expected: "no panic", Observed: itemStr(a)}
		}
		switch cs.Rel {
		case "total":
		case "fallback":
			if a.S != "" || a.NS != "0" || a.B {
				return &Fail{Sig: "fallback:" + cs.A.K, Expected: `"" / 0 / false`, Observed: itemStr(a)}
			}
		case "uniform":
			b := r.Items[1]
			if !coerceEq(a, b) {
				return &Fail{Sig: "uniform:" + uniformClass(cs), Expected: cs.A.K + ": " + itemStr(a), Observed: cs.B.K + ": " + itemStr(b)}
			}
		case "numstringer":
			b := r.Items[1]
			if a.NS != b.NS || a.B != b.B {
				return &Fail{Sig: "numeric-stringer", Expected: "number and truth value of " + itemStr(b), Observed: cs.A.K + ": " + itemStr(a)}
			}
		case "safe":
			b := r.Items[1]
			if !coerceEq(a, b) {
				return &Fail{Sig: "safe-coerce", Expected: "plain: " + itemStr(a), Observed: "wrapped: " + itemStr(b)}
			}
			got := append([]string(nil), b.L...)
			sort.Strings(got)
			if !hasCustomSafe(*cs.B) && strings.Join(got, ",") != cs.Src {
				return &Fail{Sig: "safe-types", Expected: cs.Src, Observed: strings.Join(got, ",")}
			}
		case "bool":
			want := sb.Item{Status: "ok", S: "", NS: "0", B: false}
			if cs.A.B {
				want = sb.Item{Status: "ok", S: "1", NS: "1", B: true}
			}
			if !coerceEq(a, want) {
				return &Fail{Sig: "bool", Expected: itemStr(want), Observed: itemStr(a)}
			}
		case "numeral":
			rat, ok := new(big.Rat).SetString(cs.A.S)
			if !ok {
				return nil
			}
			f, _ := rat.Float64()
			if f == 0 && strings.HasPrefix(cs.A.S, "-") {
				f = math.Copysign(0, -1)
			}
			if a.NS != m.FmtNum(f) {
				return &Fail{Sig: "numeral", Expected: m.FmtNum(f), Observed: itemStr(a)}
			}
		case "float":
			f := math.Float64frombits(mustHex(cs.A.S))
			if math.IsNaN(f) || math.IsInf(f, 0) {
				return nil
			}
			if a.Msg != m.FmtNum(f) {
				return &Fail{Sig: "float-roundtrip", Expected: m.FmtNum(f), Observed: "string " + a.S + " reads back as " + a.Msg}
			}
			if f == math.Trunc(f) && math.Abs(f) < 1e6 && !(f == 0 && math.Signbit(f)) {
				if a.S != strconv.FormatInt(int64(f), 10) {
					return &Fail{Sig: "float-plain-integer", Expected: strconv.FormatInt(int64(f), 10), Observed: a.S}
				}
			}
		}
		return nil
	})
	printSub := NewSub(p, "print", func(c *Ctx, cs *c15Case) *Fail {
		r := c.SB.Do(&sb.Req{Op: "coerce", Vals: []sb.V{cs.A}})
		if r.Fatal() || r.Status != "ok" {
			return fatalFail(r)
		}
		r2 := c.SB.Do(&sb.Req{Op: "exec", Env: "core", Loader: "string", Entry: "{{ v }}", Ctx: map[string]sb.V{"v": cs.A}})
		if r2.Fatal() {
			return fatalFail(r2)
		}
		key, _ := jsonStr(cs)
		c.Ev.Count("print"+key, c15NonTrivial(cs), "rel:print")
		if r.Items[0].Status == "ok" && (r2.Status != "ok" || r2.Out != r.Items[0].S) {
			return &Fail{Sig: "print-vs-coerce", Expected: r.Items[0].S, Observed: r2.Status + ": " + r2.Out + r2.Err}
		}
		return nil
	})

	p.Run = func(c *Ctx) {
		// complete grid: boundary value x carrier kind pairs (uniformity)
		done := true
		idx := 0
		for _, ns := range boundaryInts {
			n := bi(ns)
			for i, k1 := range intKinds {
				for _, k2 := range intKinds[i+1:] {
					if !fits(k1, n) || !fits(k2, n) {
						continue
					}
					idx++
					if !c.Mine(idx) {
						continue
					}
					b := intV(k2.name, n)
					if !sub.Check(c, &c15Case{Rel: "uniform", A: intV(k1.name, n), B: &b, Src: ns}) {
						done = false
					}
				}
			}
		}
		c.Ev.S.Exhaustive["boundary_value_x_kind_pairs"] = done
		n := c.Share(c.Pick(60000, 4000000))
		sub.Rapid(c, n/6, func(t *rapid.T) *c15Case { return &c15Case{Rel: "total", A: anyValue(t)} })
		sub.Rapid(c, n/12, func(t *rapid.T) *c15Case { return &c15Case{Rel: "fallback", A: unsupportedV(t)} })
		sub.Rapid(c, n/6, func(t *rapid.T) *c15Case {
			k1 := rapid.SampledFrom(intKinds).Draw(t, "k1")
			k2 := rapid.SampledFrom(intKinds).Draw(t, "k2")
			var nn *big.Int
			if rapid.Bool().Draw(t, "boundary") {
				nn = bi(rapid.SampledFrom(boundaryInts).Draw(t, "n"))
				nn.Add(nn, big.NewInt(int64(rapid.IntRange(-2, 2).Draw(t, "delta"))))
			} else {
				nn = big.NewInt(rapid.Int64().Draw(t, "n64"))
				nn.Rsh(nn, uint(rapid.IntRange(0, 62).Draw(t, "shift")))
			}
			if !fits(k1, nn) || !fits(k2, nn) || (k1.name == "float32" && !exact32(nn)) || (k2.name == "float32" && !exact32(nn)) ||
				(k1.name == "float64" && !exact64(nn)) || (k2.name == "float64" && !exact64(nn)) {
				nn = big.NewInt(int64(rapid.IntRange(0, 127).Draw(t, "small")))
			}
			b := intV(k2.name, nn)
			return &c15Case{Rel: "uniform", A: intV(k1.name, nn), B: &b, Src: nn.String()}
		})
		// integers a float32 holds exactly although they lie beyond 2^24
		sub.Rapid(c, n/12, func(t *rapid.T) *c15Case {
			mant := int64(rapid.IntRange(1<<23, 1<<24-1).Draw(t, "mant"))
			nn := new(big.Int).Lsh(big.NewInt(mant), uint(rapid.IntRange(1, 29).Draw(t, "exp")))
			if rapid.Bool().Draw(t, "neg") {
				nn.Neg(nn)
			}
			f, _ := new(big.Float).SetInt(nn).Float64()
			others := []sb.V{intV("float64", nn), intV("int64", nn)}
			b := others[rapid.IntRange(0, 1).Draw(t, "other")]
			return &c15Case{Rel: "uniform", A: sb.V{K: "float32", N: f}, B: &b, Src: nn.String()}
		})
		// integers a float64 holds exactly although they lie beyond 2^53
		sub.Rapid(c, n/12, func(t *rapid.T) *c15Case {
			mant := rapid.Int64Range(1<<52, 1<<53-1).Draw(t, "mant")
			nn := new(big.Int).Lsh(big.NewInt(mant), uint(rapid.IntRange(1, 10).Draw(t, "exp")))
			other := "int64"
			if rapid.Bool().Draw(t, "unsigned") {
				other = "uint64"
			} else if rapid.Bool().Draw(t, "neg") {
				nn.Neg(nn)
			}
			b := intV(other, nn)
			return &c15Case{Rel: "uniform", A: intV("float64", nn), B: &b, Src: nn.String()}
		})
		// a numeric or boolean type that also has a String method keeps its
		// number and its truth value (its string is what String returns)
		sub.Rapid(c, n/25, func(t *rapid.T) *c15Case {
			k := rapid.IntRange(0, 12).Draw(t, "k")
			b := sb.V{K: "int", N: float64(k)}
			nk := rapid.SampledFrom([]string{"named:month", "named:duration", "named:level", "named:ulevel", "named:u64level", "named:flevel32", "named:flevel64", "named:bflag"}).Draw(t, "nk")
			if nk == "named:bflag" {
				b = sb.V{K: "bool", B: k%2 == 1}
				return &c15Case{Rel: "numstringer", A: sb.V{K: nk, B: k%2 == 1}, B: &b}
			}
			return &c15Case{Rel: "numstringer", A: sb.V{K: nk, N: float64(k)}, B: &b}
		})
		// defined string and bool types coerce like string and bool
		sub.Rapid(c, n/50, func(t *rapid.T) *c15Case {
			if rapid.Bool().Draw(t, "which") {
				s := rapid.SampledFrom([]string{"", "x", "12", "-3.5", "abc def"}).Draw(t, "s")
				b := sb.V{K: "named:str", S: s}
				return &c15Case{Rel: "uniform", A: sb.V{K: "str", S: s}, B: &b, Src: s}
			}
			bv := rapid.Bool().Draw(t, "b")
			b := sb.V{K: "named:bool", B: bv}
			return &c15Case{Rel: "uniform", A: sb.V{K: "bool", B: bv}, B: &b, Src: fmt.Sprint(bv)}
		})
		sub.Rapid(c, n/6, func(t *rapid.T) *c15Case {
			v := anyValue(t)
			w, types := wrapSafe(t, v)
			return &c15Case{Rel: "safe", A: v, B: &w, Src: strings.Join(types, ",")}
		})
		sub.Rapid(c, n/50, func(t *rapid.T) *c15Case { return &c15Case{Rel: "bool", A: sb.V{K: "bool", B: rapid.Bool().Draw(t, "b")}} })
		sub.Rapid(c, n/6, func(t *rapid.T) *c15Case { return &c15Case{Rel: "numeral", A: sb.V{K: "str", S: numeralGen().Draw(t, "s")}} })
		sub.Rapid(c, n/4, func(t *rapid.T) *c15Case { return &c15Case{Rel: "float", A: fbitsV(floatGen().Draw(t, "f"))} })
		printSub.Rapid(c, n/20, func(t *rapid.T) *c15Case { return &c15Case{Rel: "print", A: anyValue(t)} })
	}
	Register(p)
}

func exact32(n *big.Int) bool {
	f, _ := new(big.Float).SetInt(n).Float64()
	return float64(float32(f)) == f && new(big.Float).SetFloat64(f).Cmp(new(big.Float).SetInt(n)) == 0
}

func exact64(n *big.Int) bool {
	f, acc := new(big.Float).SetInt(n).Float64()
	return acc == big.Exact && !math.IsInf(f, 0)
}

func uniformClass(cs *c15Case) string {
	n := bi(cs.Src)
	if n != nil && n.CmpAbs(big.NewInt(1000000)) >= 0 && (strings.HasPrefix(cs.A.K, "f") || strings.HasPrefix(cs.B.K, "f")) {
		return "float-vs-int-at-or-above-1e6"
	}
	return "other"
}

func mustHex(s string) uint64 { u, _ := strconv.ParseUint(s, 16, 64); return u }

func c15NonTrivial(cs *c15Case) bool {
	switch cs.Rel {
	case "fallback", "safe":
		return true
	case "uniform":
		n := bi(cs.Src)
		return n != nil && (n.Sign() < 0 || n.CmpAbs(big.NewInt(65536)) >= 0)
	case "numeral":
		return len(cs.A.S) > 3
	case "float":
		f := math.Float64frombits(mustHex(cs.A.S))
		return f < 0 || f != math.Trunc(f) || math.Abs(f) >= 65536
	case "bool":
		return false
	}
	return cs.A.K != "bool" && cs.A.K != "num"
}

func hasCustomSafe(v sb.V) bool {
	if v.K == "customsafe" {
		return true
	}
	for _, e := range v.E {
		if hasCustomSafe(e) {
			return true
		}
	}
	return false
}
