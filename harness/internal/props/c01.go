package props

import (
	"strconv"
	"strings"

	"pgregory.net/rapid"

	"verif/internal/gen"
	"verif/internal/sb"
)

// C01: parsing is total.

type c01Case struct {
	Env string `json:"env"` // raw | core | twig
	Src sb.BS  `json:"src"`
	How string `json:"how,omitempty"`
}

func hasOpenDelim(s string) bool {
	return strings.Contains(s, "{{") || strings.Contains(s, "{%") || strings.Contains(s, "{#")
}

func init() {
	p := &Property{
		ID:        "C01",
		Level:     "exploration",
		Technique: "property-based testing: token-soup and mutation generators + bounded-exhaustive enumeration, totality oracle in a sandboxed worker; native fuzzing in the thorough tier",
		Rule: "inputs: (a) random sequences of 0-40 fragments over a ~130-fragment dictionary (all delimiters, operators, keywords, quotes, CR/LF, invalid UTF-8), " +
			"(b) every prefix, single-fragment deletion and dictionary insertion at fragment boundaries of the repository's test templates and of generated programs, " +
			"(c) every string of <= K fragments over a 16-fragment core alphabet, (f) four focused families (verbatim sections, comments, interpolated strings, tag heads): every opening spelling x every body of <= 3 (thorough 4; tag heads 2/3) fragments over a 12-29 fragment alphabet x every closing spelling, (e) legal nesting 10..3000 levels deep of every bracket and body-carrying tag, complete and truncated; each parsed through parse.Parse, stick.New(nil).Parse and twig.New(nil).Parse. " +
			"Oracle: parser returns a tree xor an error within the deadline; panic, worker death (lexer goroutine), confirmed hang or memory blow-up is a violation. " +
			"Non-trivial: input contains an opening delimiter and is either rejected with an error or was derived by mutating a well-formed template or belongs to a focused family; distinct by content.",
		Assumptions: []string{
			"hang = no answer within 2 s, confirmed twice in a fresh worker with a 10 s deadline and a stack dump showing a stick frame",
			"nesting depth of generated inputs stays far below the ~10^4 levels the statement excludes",
		},
	}
	sub := NewSub(p, "parse", func(c *Ctx, cs *c01Case) *Fail {
		r := c.SB.Do(&sb.Req{Op: "parse", Env: cs.Env, Entry: string(cs.Src)})
		nt := hasOpenDelim(string(cs.Src)) && (r.Status == "error" || cs.How != "")
		c.Ev.Count(cs.Env+"\x00"+string(cs.Src), nt, "status:"+r.Status, "via:"+cs.Env)
		if nt {
			c.Ev.Sample(map[string]string{"env": cs.Env, "src": string(cs.Src), "status": r.Status, "how": cs.How})
		}
		if r.Status == "ok" || r.Status == "error" {
			return nil
		}
		return fatalFail(r)
	})
	envs := []string{"raw", "core", "twig"}

	// batch evaluates many sources in one round trip and falls back to the
	// authoritative single-case path for anything suspicious.
	batch := func(c *Ctx, env string, srcs []string, how string) bool {
		if len(srcs) == 0 {
			return true
		}
		r := c.SB.DoOnce(&sb.Req{Op: "parsebatch", Env: env, Strs: srcs})
		if r.Status == "ok" && len(r.Items) == len(srcs) {
			allOK := true
			for _, it := range r.Items {
				if it.Status != "ok" && it.Status != "error" {
					allOK = false
				}
			}
			if allOK {
				for i, s := range srcs {
					nt := hasOpenDelim(s) && (r.Items[i].Status == "error" || how != "")
					c.Ev.Count(env+"\x00"+s, nt, "status:"+r.Items[i].Status, "via:"+env)
					if nt {
						c.Ev.Sample(map[string]string{"env": env, "src": s, "status": r.Items[i].Status, "how": how})
					}
				}
				return true
			}
		}
		for _, s := range srcs {
			if !sub.Check(c, &c01Case{Env: env, Src: sb.BS(s), How: how}) {
				return false
			}
		}
		return true
	}

	p.Run = func(c *Ctx) {
		// (c) bounded-exhaustive over the core alphabet.
		maxLen := c.Pick(4, 5)
		alpha := gen.CoreAlphabet
		idx := 0
		var buf []string
		var rec func(prefix string, depth int) bool
		flush := func() bool {
			ok := batch(c, "raw", buf, "")
			buf = buf[:0]
			return ok
		}
		rec = func(prefix string, depth int) bool {
			if depth > 0 {
				if c.Mine(idx) {
					buf = append(buf, prefix)
					if len(buf) >= 256 {
						if !flush() {
							return false
						}
					}
				}
				idx++
			}
			if depth == maxLen {
				return true
			}
			for _, a := range alpha {
				if !rec(prefix+a, depth+1) {
					return false
				}
			}
			return true
		}
		done := rec("", 0) && flush()
		c.Ev.S.Exhaustive["core_alphabet_len<="+itoa(maxLen)] = done && !c.Expired()

		// (b) mutations of the repository's templates.
		tpls := gen.Corpus
		nT := 0
		for ti, tpl := range tpls {
			if !c.Mine(ti) || sub.Failed(c) {
				continue
			}
			nT++
			env := envs[ti%3]
			var muts []string
			for i := 0; i <= len(tpl); i++ {
				muts = append(muts, tpl[:i])
			}
			if !batch(c, env, muts, "prefix") {
				break
			}
			frags := gen.Fragments(tpl)
			muts = muts[:0]
			for i := range frags {
				muts = append(muts, strings.Join(frags[:i], "")+strings.Join(frags[i+1:], ""))
			}
			if !batch(c, env, muts, "delete") {
				break
			}
			// insertion of every dictionary fragment at every boundary
			// (quick: a seeded sample of boundaries).
			for i := 0; i <= len(frags); i++ {
				if c.Quick() && Mix(c.Seed, uint64(ti), uint64(i))%4 != 0 {
					continue
				}
				muts = muts[:0]
				pre, post := strings.Join(frags[:i], ""), strings.Join(frags[i:], "")
				for _, d := range gen.Dict {
					muts = append(muts, pre+d+post)
				}
				if !batch(c, env, muts, "insert") {
					break
				}
			}
		}

		// (e) deep but legal nesting (far below the ~10^4 levels the statement
		// excludes), complete and cut off in the middle
		deep := func(open, mid, close string, n int) []string {
			full := strings.Repeat(open, n) + mid + strings.Repeat(close, n)
			return []string{full, full[:len(full)/2], strings.Repeat(open, n) + mid, strings.Repeat(open, n)}
		}
		di := 0
		for _, n := range []int{10, 100, 1000, 3000} {
			var srcs []string
			srcs = append(srcs, deep("{{ (", "1", ") }}", 1)...)
			srcs = append(srcs, "{{ "+strings.Repeat("(", n)+"1"+strings.Repeat(")", n)+" }}", "{{ "+strings.Repeat("[", n)+strings.Repeat("]", n)+" }}",
				"{{ "+strings.Repeat("{a:", n)+"1"+strings.Repeat("}", n)+" }}", "{{ a"+strings.Repeat(".b", n)+" }}", "{{ a"+strings.Repeat("|f", n)+" }}",
				"{{ "+strings.Repeat("- ", n)+"1 }}", "{{ "+strings.Repeat("not ", n)+"a }}", "{{ 1"+strings.Repeat(" + 1", n)+" }}", "{{ a"+strings.Repeat(" ? b : c", n)+" }}",
				"{{ a"+strings.Repeat("[0]", n)+" }}", "{{ f"+strings.Repeat("(f", n)+strings.Repeat(")", n)+" }}", "{{ \""+strings.Repeat("#{a}", n)+"\" }}")
			srcs = append(srcs, deep("{% if x %}", "t", "{% endif %}", n)...)
			srcs = append(srcs, deep("{% for i in x %}", "t", "{% endfor %}", n)...)
			srcs = append(srcs, deep("{% block b %}", "t", "{% endblock %}", n)...)
			srcs = append(srcs, deep("{% set v %}", "t", "{% endset %}", n)...)
			srcs = append(srcs, deep("{% filter f %}", "t", "{% endfilter %}", n)...)
			srcs = append(srcs, strings.Repeat("{% if x %}a{% elseif y %}", n)+strings.Repeat("{% endif %}", n), strings.Repeat("{# c #}", n), strings.Repeat("{{ a }}", n), strings.Repeat("{", n), strings.Repeat("{{", n), strings.Repeat("{% ", n))
			for _, src := range srcs {
				di++
				if c.Mine(di) {
					sub.Check(c, &c01Case{Env: envs[di%3], Src: sb.BS(src), How: "deep"})
				}
			}
		}

		// (f) focused bounded-exhaustive families: the sub-languages in which
		// the lexer switches mode (raw sections, comments, interpolated
		// strings), every opening spelling x every body of <= K fragments over a
		// small hostile alphabet x every closing spelling.
		type family struct {
			name          string
			opens, closes []string
			alpha         []string
			k             int
		}
		fams := []family{
			{"verbatim", []string{"{% verbatim %}", "{%- verbatim %}", "{%verbatim-%}", "{%- verbatim -%}", "a {%-\tverbatim\n%}"},
				[]string{"", "{% endverbatim %}", "{%- endverbatim -%}", "{% endverbatim", "{%endverbatim%} b"},
				[]string{"{%", "{%-", "{{", "{#", "}}", "%}", "#}", "$", "'x", "\"", "x", " ", "endverbatim", "verbatim"}, c.Pick(3, 4)},
			{"comment", []string{"{#", "{#-", "a{# "}, []string{"", "#}", "-#}", " #} b"},
				[]string{"#}", "-#}", "{#", "#", "}", "-", " ", "\n", "{{", "{%", "%}", "x"}, c.Pick(3, 4)},
			{"interp", []string{"{{ \"", "{{ \"a", "{% set v = \"", "{{ f(\""}, []string{"", "\" }}", "\") }}", "\" %}", "}\" }}"},
				[]string{"#{", "}", "\"", "'", "a", " ", "^", "\\", "{{", "}}", "#", "{", "1.", "|f", "("}, c.Pick(3, 4)},
			{"tagname", []string{"{%", "{%-", "{% ", "x{%\n"}, []string{"", "%}", " %}", "-%}", " %}y{% endif %}", " %}y{% endfor %}", " %}y{% endblock %}"},
				[]string{"if", "for", "in", "block", "set", "=", "x", ",", " ", "'t'", "extends", "include", "with", "only", "embed", "macro", "(", ")", "filter", "|", "import", "as", "from", "use", "do", "else", "elseif", "endif", "$"}, c.Pick(2, 3)},
		}
		fi := 0
		for _, fam := range fams {
			complete := true
			var bodies []string
			var build func(prefix string, d int)
			build = func(prefix string, d int) {
				bodies = append(bodies, prefix)
				if d == fam.k {
					return
				}
				for _, a := range fam.alpha {
					build(prefix+a, d+1)
				}
			}
			build("", 0)
			var srcs []string
			for _, o := range fam.opens {
				for _, cl := range fam.closes {
					for _, b := range bodies {
						fi++
						if !c.Mine(fi / 256) {
							continue
						}
						srcs = append(srcs, o+b+cl)
						if len(srcs) >= 256 {
							if !batch(c, envs[(fi/256)%3], srcs, "family:"+fam.name) {
								complete = false
							}
							srcs = srcs[:0]
						}
					}
				}
			}
			if !batch(c, envs[(fi/256)%3], srcs, "family:"+fam.name) {
				complete = false
			}
			c.Ev.S.Exhaustive["family_"+fam.name+"_body<="+itoa(fam.k)] = complete && !c.Expired() && !sub.Failed(c)
		}

		// (a) token soups.
		soup := func(t *rapid.T) *c01Case {
			n := rapid.IntRange(0, 40).Draw(t, "n")
			var b strings.Builder
			for i := 0; i < n; i++ {
				b.WriteString(rapid.SampledFrom(gen.Dict).Draw(t, "f"))
				if rapid.IntRange(0, 3).Draw(t, "sp") == 0 {
					b.WriteByte(' ')
				}
			}
			return &c01Case{Env: rapid.SampledFrom(envs).Draw(t, "env"), Src: sb.BS(b.String())}
		}
		sub.Rapid(c, c.Share(c.Pick(40000, 2000000)), soup)

		// (a') structured soups: a well-formed corpus template with a random
		// window replaced by soup (reaches deeper parser states).
		splice := func(t *rapid.T) *c01Case {
			tpl := rapid.SampledFrom(gen.Corpus).Draw(t, "tpl")
			frags := gen.Fragments(tpl)
			i := rapid.IntRange(0, len(frags)).Draw(t, "i")
			j := rapid.IntRange(i, min(len(frags), i+3)).Draw(t, "j")
			n := rapid.IntRange(0, 4).Draw(t, "n")
			var b strings.Builder
			b.WriteString(strings.Join(frags[:i], ""))
			for k := 0; k < n; k++ {
				b.WriteString(rapid.SampledFrom(gen.Dict).Draw(t, "f"))
			}
			b.WriteString(strings.Join(frags[j:], ""))
			return &c01Case{Env: rapid.SampledFrom(envs).Draw(t, "env"), Src: sb.BS(b.String()), How: "splice"}
		}
		sub.Rapid(c, c.Share(c.Pick(20000, 1000000)), splice)

		// (d) native coverage-guided fuzzing (thorough tier only)
		if !c.Quick() && c.Shard == 0 {
			inputs, _ := nativeFuzz(c, "FuzzParse", 120)
			for _, in := range inputs {
				for _, env := range envs {
					sub.Check(c, &c01Case{Env: env, Src: sb.BS(in), How: "native-fuzz"})
				}
			}
		}
	}
	Register(p)
}

func itoa(i int) string { return strconv.Itoa(i) }
