package props

import (
	"encoding/json"

	"pgregory.net/rapid"
)

type rapidT = rapid.T

func rapidInt(t *rapid.T, lo, hi int) int { return rapid.IntRange(lo, hi).Draw(t, "n") }

func jsonStr(v interface{}) (string, error) {
	b, err := json.Marshal(v)
	return string(b), err
}
