package props

import "pgregory.net/rapid"

type rapidT = rapid.T

func rapidInt(t *rapid.T, lo, hi int) int { return rapid.IntRange(lo, hi).Draw(t, "n") }
