package props

import (
	"fmt"
	"math"
	"sort"
	"strconv"
	"strings"

	"pgregory.net/rapid"

	m "verif/internal/model"
	"verif/internal/sb"
)

// C16: attribute access and iteration are total and visit what is there.

type c16Case struct {
	C    sb.V   `json:"c"`
	K    sb.V   `json:"k"`
	Args []sb.V `json:"args,omitempty"`
}

type c16Iter struct {
	C     sb.V   `json:"c"`
	Probe []sb.V `json:"probe,omitempty"`
	// Grow > 0: the iteratee adds entries to the map at that step (string-keyed
	// maps only); the metadata of the traversal performed must stay coherent.
	Grow int `json:"grow,omitempty"`
}

func vnum(f float64) sb.V  { return sb.V{K: "num", N: f} }
func vstr(s string) sb.V   { return sb.V{K: "str", S: s} }
func vk(k string, f float64) sb.V { return sb.V{K: k, N: f} }

// reprV mirrors worker.Repr(worker.Build(v)) for the kinds used as elements.
func reprV(v sb.V) string {
	switch {
	case v.K == "" || v.K == "null":
		return "~"
	case v.K == "bool":
		if v.B {
			return "T"
		}
		return "F"
	case v.K == "str":
		return strconv.Quote(v.S)
	case v.K == "arr" || strings.HasPrefix(v.K, "slice:") || strings.HasPrefix(v.K, "array:"):
		parts := make([]string, len(v.E))
		for i, e := range v.E {
			parts[i] = reprV(e)
		}
		return "[" + strings.Join(parts, ",") + "]"
	case v.K == "hash":
		idx := make([]int, len(v.KS))
		for i := range idx {
			idx[i] = i
		}
		sort.Slice(idx, func(a, b int) bool { return v.KS[idx[a]] < v.KS[idx[b]] })
		parts := []string{}
		for _, i := range idx {
			parts = append(parts, strconv.Quote(v.KS[i])+":"+reprV(v.E[i]))
		}
		return "{" + strings.Join(parts, ",") + "}"
	case isNumKind(v.K):
		return "#" + m.FmtNum(numOf(v))
	case v.K == "person":
		return "?worker.Person"
	}
	return "?"
}

func isNumKind(k string) bool {
	switch k {
	case "num", "float64", "float32", "int", "int8", "int16", "int32", "int64", "uint", "uint8", "uint16", "uint32", "uint64", "nan":
		return true
	}
	return false
}

func numOf(v sb.V) float64 {
	if v.K == "float32" {
		return float64(float32(v.N))
	}
	if v.K == "nan" {
		return math.NaN() // (a kind of its own: JSON cannot carry NaN)
	}
	return v.N
}

// goType names the dynamic Go type of a described scalar.
func goType(v sb.V) string {
	switch v.K {
	case "num", "float64", "nan":
		return "float64"
	case "str":
		return "string"
	case "", "null":
		return "nil"
	}
	return v.K
}

type expect struct {
	mode string // elem | error | either | nopanic
	repr string
}

// keyStr is the string a documented coercion would turn a key into.
func keyStr(k sb.V) string {
	switch {
	case k.K == "str":
		return k.S
	case isNumKind(k.K):
		return strconv.FormatFloat(numOf(k), 'f', -1, 64)
	case k.K == "bool":
		if k.B {
			return "1"
		}
	}
	return ""
}

func unwrapPtr(c sb.V) (sb.V, int) {
	n := 0
	for c.K == "ptr" && len(c.E) == 1 {
		c = c.E[0]
		n++
	}
	return c, n
}

var personFields = map[string]func(p sb.V) string{
	"Name": func(p sb.V) string { return strconv.Quote(p.S) },
	"Age":  func(p sb.V) string { return "#" + m.FmtNum(p.N) },
	"Tags": func(p sb.V) string { return `["t0","t1"]` },
	"M":    func(p sb.V) string { return `{"one":#1}` },
}

// expectAttr is the direct Go model of attribute lookup.
func expectAttr(c, k sb.V, args []sb.V) expect {
	c, nptr := unwrapPtr(c)
	if nptr > 1 || (nptr == 1 && (c.K == "cyclicnode" || c.K == "pperson")) {
		// two levels of pointers (the cyclic node is a pointer itself)
		return expect{mode: "nopanic"}
	}
	if k.K == "safe" && len(k.E) == 1 && nptr <= 1 {
		// a key wrapped as safe is the key inside
		return expectAttr(c, k.E[0], args)
	}
	switch {
	case c.K == "funcmap":
		// functions stored in a hash are called like methods
		switch {
		case k.K == "str" && k.S == "url":
			if len(args) == 1 && args[0].K == "str" {
				return expect{mode: "elem", repr: strconv.Quote("u:" + args[0].S)}
			}
			if len(args) != 1 {
				return expect{mode: "error"}
			}
			return expect{mode: "either", repr: "*"}
		case k.K == "str" && k.S == "zero":
			if len(args) == 0 {
				return expect{mode: "elem", repr: "#7"}
			}
			return expect{mode: "error"}
		case k.K == "str" && k.S == "n":
			return expect{mode: "nopanic"}
		}
		return expect{mode: "error"}
	case c.K == "values":
		// a named map type: its entries by key, its methods by name
		switch {
		case k.K == "str" && k.S == "a":
			return expect{mode: "elem", repr: `["1","2"]`}
		case k.K == "str" && k.S == "b":
			return expect{mode: "elem", repr: `["x"]`}
		case k.K == "str" && k.S == "Get":
			if len(args) == 1 && args[0].K == "str" {
				return expect{mode: "elem", repr: strconv.Quote(map[string]string{"a": "1", "b": "x"}[args[0].S])}
			}
			if len(args) != 1 {
				return expect{mode: "error"}
			}
			return expect{mode: "either", repr: "*"}
		case k.K == "str" && k.S == "Encode":
			if len(args) == 0 {
				return expect{mode: "elem", repr: `"a=1&a=2&b=x"`}
			}
			return expect{mode: "error"}
		}
		return expect{mode: "error"}
	case c.K == "level":
		// a defined integer type with methods
		if k.K == "str" && k.S == "Next" {
			if len(args) == 1 && goType(args[0]) == "int" {
				return expect{mode: "elem", repr: "#" + m.FmtNum(c.N+args[0].N)}
			}
			if len(args) != 1 {
				return expect{mode: "error"}
			}
			return expect{mode: "either", repr: "*"}
		}
		if k.K == "str" && k.S == "String" {
			return expect{mode: "nopanic"}
		}
		return expect{mode: "error"}
	case c.K == "embednil":
		// Page{*Meta(nil), Title}: a field promoted through the nil embedded
		// pointer does not exist on this value
		switch {
		case k.K == "str" && k.S == "Title":
			return expect{mode: "elem", repr: strconv.Quote(c.S)}
		case k.K == "str" && k.S == "Describe":
			// a method promoted through the nil embedded pointer cannot be reached
			return expect{mode: "error"}
		case k.K == "str" && k.S == "Meta":
			return expect{mode: "nopanic"}
		}
		return expect{mode: "error"}
	case c.K == "cyclicmap":
		if k.K == "str" && k.S == "title" {
			return expect{mode: "elem", repr: `"t"`}
		}
		if k.K == "str" && (k.S == "self" || k.S == "kids") {
			return expect{mode: "nopanic"}
		}
		return expect{mode: "error"}
	case c.K == "cyclicnode":
		if k.K == "str" && k.S == "Name" {
			return expect{mode: "elem", repr: `"kid"`}
		}
		if k.K == "str" && (k.S == "Parent" || k.S == "Kids") {
			return expect{mode: "nopanic"}
		}
		return expect{mode: "error"}
	case c.K == "hash" || strings.HasPrefix(c.K, "map:"):
		if isNumKind(k.K) && math.IsNaN(numOf(k)) {
			return expect{mode: "error"} // NaN equals no key
		}
		if k.K == "arrayofany" {
			return expect{mode: "error"} // unhashable
		}
		kt := "string"
		var keys []sb.V
		if c.K == "hash" {
			for _, s := range c.KS {
				keys = append(keys, vstr(s))
			}
		} else {
			kt = strings.SplitN(c.K[4:], ":", 2)[0]
			if kt == "str" {
				kt = "string"
			}
			keys = c.KV
		}
		if k.K == "null" || k.K == "" {
			if kt == "any" {
				return expect{mode: "nopanic"}
			}
			return expect{mode: "error"}
		}
		if kt == "any" || goType(k) == kt {
			for i, kk := range keys {
				if goType(kk) == goType(k) && keyStr(kk) == keyStr(k) && kk.B == k.B {
					return expect{mode: "elem", repr: reprV(c.E[i])}
				}
			}
			return expect{mode: "error"}
		}
		for i, kk := range keys {
			if keyStr(kk) == keyStr(k) {
				if k.K == "str" && isNumKind(kt) && isNumKind(kk.K) && !math.IsNaN(numOf(kk)) && math.Abs(numOf(kk)) < 1e6 {
					// the plain spelling of a number finds the entry under
					// that number (names.1, names['1'])
					return expect{mode: "elem", repr: reprV(c.E[i])}
				}
				return expect{mode: "either", repr: reprV(c.E[i])}
			}
		}
		return expect{mode: "error"}
	case c.K == "arr" || strings.HasPrefix(c.K, "slice:") || strings.HasPrefix(c.K, "array:"):
		if !isNumKind(k.K) {
			// a numeric string may be taken as an index; anything else (a
			// word, a boolean, null, a container) cannot be used as one
			if k.K == "str" {
				if _, err := strconv.ParseFloat(k.S, 64); err == nil {
					return expect{mode: "nopanic"}
				}
			}
			if k.K == "safe" || k.K == "stringer" || k.K == "decimal" {
				return expect{mode: "nopanic"}
			}
			return expect{mode: "error"}
		}
		f := numOf(k)
		if f != math.Trunc(f) || math.IsNaN(f) || math.Abs(f) > 1e9 {
			return expect{mode: "nopanic"}
		}
		if f < 0 || int(f) >= len(c.E) {
			return expect{mode: "error"}
		}
		return expect{mode: "elem", repr: reprElemOf(c, int(f))}
	case c.K == "person" || c.K == "embedder":
		if k.K != "str" {
			return expect{mode: "error"}
		}
		if f, ok := personFields[k.S]; ok {
			return expect{mode: "elem", repr: f(c)}
		}
		if k.S == "Extra" && c.K == "embedder" {
			return expect{mode: "elem", repr: `"extra"`}
		}
		if k.S == "Inner" {
			return expect{mode: "nopanic"}
		}
		if k.S == "priv" || k.S == "unexported" || k.S == "Person" {
			if k.S == "Person" && c.K == "embedder" {
				return expect{mode: "nopanic"}
			}
			return expect{mode: "error"}
		}
		return expectMethod(c, k.S, args)
	}
	// scalars, nil, nil pointers, nil maps and slices, channels ...
	if strings.HasPrefix(c.K, "nilslice:") && isNumKind(k.K) {
		return expect{mode: "error"}
	}
	if strings.HasPrefix(c.K, "nilslice:") {
		return expect{mode: "nopanic"}
	}
	return expect{mode: "error"}
}

func reprElemOf(c sb.V, i int) string {
	e := c.E[i]
	// typed slices convert their elements
	if strings.HasPrefix(c.K, "slice:") || strings.HasPrefix(c.K, "array:") {
		switch c.K[6:] {
		case "int", "float64", "num", "uint8", "int64":
			return "#" + m.FmtNum(e.N)
		}
	}
	return reprV(e)
}

// expectMethod models calls of Person's methods (see worker/values.go).
func expectMethod(p sb.V, name string, args []sb.V) expect {
	typed := func(want ...string) (exact bool, arity bool) {
		if len(args) != len(want) {
			return false, false
		}
		exact = true
		for i, w := range want {
			if w == "any" {
				if args[i].K == "null" || args[i].K == "" {
					exact = false
				}
				continue
			}
			if goType(args[i]) != w {
				exact = false
			}
		}
		return exact, true
	}
	str := func(i int) string { return args[i].S }
	switch name {
	case "Greet":
		if ex, ar := typed("string"); !ar {
			return expect{mode: "error"}
		} else if ex {
			return expect{mode: "elem", repr: strconv.Quote(str(0) + p.S)}
		}
		return expect{mode: "either", repr: "*"}
	case "PtrName":
		if ex, ar := typed("string"); !ar {
			return expect{mode: "error"}
		} else if ex {
			return expect{mode: "elem", repr: strconv.Quote(str(0) + "*" + p.S)}
		}
		return expect{mode: "either", repr: "*"}
	case "Zero":
		if len(args) != 0 {
			return expect{mode: "error"}
		}
		return expect{mode: "elem", repr: strconv.Quote("zero:" + p.S)}
	case "Nothing":
		if len(args) != 0 {
			return expect{mode: "error"}
		}
		return expect{mode: "elem", repr: "~"}
	case "Two":
		return expect{mode: "error"}
	case "Sum":
		if ex, ar := typed("int", "int"); !ar {
			return expect{mode: "error"}
		} else if ex {
			return expect{mode: "elem", repr: "#" + m.FmtNum(args[0].N+args[1].N+p.N)}
		}
		return expect{mode: "either", repr: "*"}
	case "F64":
		if ex, ar := typed("float64"); !ar {
			return expect{mode: "error"}
		} else if ex {
			return expect{mode: "elem", repr: "#" + m.FmtNum(args[0].N*2)}
		}
		return expect{mode: "either", repr: "*"}
	case "Slot":
		// Slot(n uint8): a number is usable exactly when it is an integer in 0..255
		if len(args) != 1 {
			return expect{mode: "error"}
		}
		if !isNumKind(args[0].K) {
			return expect{mode: "either", repr: "*"}
		}
		f := numOf(args[0])
		if f != math.Trunc(f) || f < 0 || f > 255 {
			return expect{mode: "error"}
		}
		if goType(args[0]) == "uint8" {
			return expect{mode: "elem", repr: strconv.Quote("slot:" + strconv.Itoa(int(f)))}
		}
		return expect{mode: "either", repr: strconv.Quote("slot:" + strconv.Itoa(int(f)))}
	case "Flag":
		if ex, ar := typed("bool"); !ar {
			return expect{mode: "error"}
		} else if ex {
			return expect{mode: "elem", repr: strconv.Quote(fmt.Sprint(args[0].B))}
		}
		return expect{mode: "either", repr: "*"}
	case "Any":
		if ex, ar := typed("any"); !ar {
			return expect{mode: "error"}
		} else if ex {
			return expect{mode: "elem", repr: strconv.Quote("any:" + reprV(args[0]))}
		}
		return expect{mode: "nopanic"}
	case "Tag":
		if len(args) == 0 {
			return expect{mode: "error"}
		}
		exact := goType(args[0]) == "string"
		var ids []string
		for _, a := range args[1:] {
			if goType(a) != "int" {
				exact = false
			}
			ids = append(ids, strconv.Itoa(int(a.N)))
		}
		if exact {
			return expect{mode: "elem", repr: strconv.Quote(args[0].S + ":" + strings.Join(ids, ","))}
		}
		return expect{mode: "either", repr: "*"}
	case "Var", "Self", "Join", "Named":
		return expect{mode: "nopanic"}
	}
	return expect{mode: "error"}
}

func c16Containers() []sb.V {
	person := sb.V{K: "person", S: "Bob", N: 30}
	sl := sb.V{K: "slice:int", E: []sb.V{vnum(5), vnum(6), vnum(7)}}
	hash := sb.V{K: "hash", KS: []string{"a", "b", "n", "0"}, E: []sb.V{vnum(1), vstr("x"), {K: "null"}, vstr("zero")}}
	return []sb.V{
		hash,
		{K: "map:str:int", KV: []sb.V{vstr("a"), vstr("b")}, E: []sb.V{vnum(1), vnum(2)}},
		{K: "map:int:str", KV: []sb.V{vk("int", 7), vk("int", 9)}, E: []sb.V{vstr("seven"), vstr("nine")}},
		{K: "map:any:int", KV: []sb.V{vstr("a"), vk("int", 7), vnum(2.5)}, E: []sb.V{vnum(1), vnum(2), vnum(3)}},
		{K: "map:float64:str", KV: []sb.V{vnum(1.5), vnum(2)}, E: []sb.V{vstr("x"), vstr("two")}},
		{K: "map:uint8:str", KV: []sb.V{vk("uint8", 3)}, E: []sb.V{vstr("three")}},
		// keys at the edge of their type: a same-width integer of the other
		// signedness must not wrap around onto them
		{K: "map:uint8:str", KV: []sb.V{vk("uint8", 255), vk("uint8", 3)}, E: []sb.V{vstr("top"), vstr("three")}},
		{K: "map:uint16:str", KV: []sb.V{vk("uint16", 65535)}, E: []sb.V{vstr("top16")}},
		{K: "map:uint32:str", KV: []sb.V{vk("uint32", 4294967295)}, E: []sb.V{vstr("top32")}},
		{K: "map:int8:str", KV: []sb.V{vk("int8", -1), vk("int8", 127)}, E: []sb.V{vstr("minus one"), vstr("max")}},
		{K: "map:float64:str", KV: []sb.V{sb.V{K: "nan"}, vnum(1)}, E: []sb.V{vstr("nan"), vstr("one")}},
		{K: "funcmap"}, {K: "values"}, {K: "level", N: 2}, {K: "ptr", E: []sb.V{{K: "funcmap"}}},
		{K: "embednil", S: "Home"}, {K: "cyclicmap"}, {K: "cyclicnode"}, {K: "ptr", E: []sb.V{{K: "embednil", S: "P"}}},
		{K: "map:bool:str", KV: []sb.V{{K: "bool", B: true}}, E: []sb.V{vstr("yes")}},
		{K: "map:kstr:int", KV: []sb.V{vstr("a"), vstr("1")}, E: []sb.V{vnum(11), vnum(12)}},
		{K: "arr", E: []sb.V{vnum(10), vstr("s"), {K: "null"}}},
		{K: "arr"},
		sl,
		{K: "array:str", E: []sb.V{vstr("p"), vstr("q")}},
		{K: "slice:any", E: []sb.V{vstr("p"), vnum(1)}},
		{K: "ptr", E: []sb.V{sl}},
		{K: "ptr", E: []sb.V{hash}},
		{K: "ptr", E: []sb.V{{K: "ptr", E: []sb.V{sl}}}},
		person,
		{K: "ptr", E: []sb.V{person}},
		{K: "embedder", S: "Eve", N: 41},
		{K: "person", S: "Outer", N: 1, E: []sb.V{{K: "person", S: "In", N: 2}}},
		{K: "nilptr:person"}, {K: "nilptr:slice"}, {K: "nilptr:map"}, {K: "nilptr:int"},
		{K: "nilmap:str"}, {K: "nilmap:value"}, {K: "nilmap:int"}, {K: "nilslice:int"}, {K: "nilslice:value"},
		{K: "null"}, vnum(3), vstr("hello"), {K: "bool", B: true}, {K: "chan"}, {K: "func"}, {K: "plain", N: 1},
		{K: "stringer", S: "str"}, {K: "decimal", S: "1.5"},
	}
}

func c16Keys() []sb.V {
	return []sb.V{
		vstr("a"), vstr("b"), vstr("zz"), vstr("0"), vstr("1"), vstr("n"), vstr(""), vstr("7"),
		vstr("url"), vstr("zero"), vstr("Get"), vstr("Encode"), vstr("Next"), {K: "safe", TS: []string{"html"}, E: []sb.V{vstr("a")}}, {K: "safe", TS: []string{"js"}, E: []sb.V{vnum(1)}}, {K: "safe", TS: []string{"html"}, E: []sb.V{vk("int", 7)}},
		{K: "safe", TS: []string{"html"}, E: []sb.V{vstr("Get")}}, {K: "safe", TS: []string{"html"}, E: []sb.V{vstr("Next")}}, {K: "safe", TS: []string{"js"}, E: []sb.V{vstr("Name")}}, {K: "safe", TS: []string{"js"}, E: []sb.V{vstr("Greet")}},
		vstr("Title"), vstr("Description"), vstr("Describe"), vstr("Meta"), vstr("title"), vstr("self"), vstr("missing"), sb.V{K: "nan"}, {K: "arrayofany"},
		vstr("Name"), vstr("Age"), vstr("Tags"), vstr("M"), vstr("Inner"), vstr("priv"), vstr("Extra"), vstr("Person"), vstr("Nope"), vstr("unexported"),
		vnum(0), vnum(1), vnum(2), vnum(3), vnum(-1), vnum(7), vnum(1.5), vnum(2.5), vnum(1e30), vnum(-1e30),
		vk("int", 0), vk("int", 1), vk("int", 7), vk("int", -1), vk("uint8", 2), vk("uint8", 3), vk("uint8", 255), vk("int8", -1), vk("int16", -1), vk("int32", -1), vk("int64", 0), vk("float32", 1), vk("uint64", 9),
		{K: "bool", B: true}, {K: "bool"}, {K: "null"},
		{K: "arr", E: []sb.V{vnum(1)}}, {K: "person", S: "k"},
		// numbers, written out and as numbers, that only reach an existing key
		// of a narrow integer type by wrapping around
		vstr("3"), vstr("255"), vstr("-1"), vstr("127"), vstr("65535"), vstr("259"), vstr("511"), vstr("383"), vstr("-129"), vstr("131071"), vstr("8589934591"), vstr("4294967295"),
		vnum(259), vnum(511), vk("int", 259), vk("int", 383), vk("int64", 8589934591), vk("int", 131071),
	}
}

func c16Methods() []string {
	return []string{"Greet", "PtrName", "Zero", "Nothing", "Two", "Sum", "F64", "Flag", "Any", "Var", "Join", "Named", "Tag", "Slot", "Self", "unexported", "Nope"}
}

func c16ArgLists() [][]sb.V {
	atoms := []sb.V{vstr("s"), vnum(2), vk("int", 3), {K: "bool", B: true}, {K: "null"}, {K: "arr", E: []sb.V{vnum(1)}}, vk("float32", 1.5), vk("int8", -1), vk("uint8", 200), vk("int", -1), vnum(300)}
	out := [][]sb.V{{}}
	for _, a := range atoms {
		out = append(out, []sb.V{a})
	}
	for _, a := range atoms {
		for _, b := range atoms {
			out = append(out, []sb.V{a, b})
		}
	}
	out = append(out, []sb.V{vstr("a"), vstr("b"), vstr("c")}, []sb.V{vk("int", 1), vk("int", 2), vk("int", 3)},
		[]sb.V{vstr("t"), vk("int", 1), vk("int", 2)}, []sb.V{vstr("t"), vk("int", 1), vstr("x")}, []sb.V{vk("int", 2), vstr("a"), vstr("b")})
	return out
}

func judgeAttr(cs *c16Case, it sb.Item) *Fail {
	ex := expectAttr(cs.C, cs.K, cs.Args)
	desc := fmt.Sprintf("container %s key %s args %d", cs.C.K, cs.K.K, len(cs.Args))
	if it.Status == "panic" {
		return &Fail{Sig: "panic:" + it.Site + ":" + normMsg(it.Msg), Expected: ex.mode + " " + ex.repr, Observed: "panic: " + it.Msg + " (" + desc + ")"}
	}
	switch ex.mode {
	case "elem":
		if it.Status != "ok" || it.S != ex.repr {
			return &Fail{Sig: "getattr:element-expected", Expected: ex.repr, Observed: it.Status + " " + it.S + it.Msg + " (" + desc + ")"}
		}
	case "error":
		if it.Status != "error" {
			return &Fail{Sig: "getattr:error-expected", Expected: "error", Observed: it.Status + " " + it.S + " (" + desc + ")"}
		}
	case "either":
		if it.Status == "ok" && ex.repr != "*" && it.S != ex.repr {
			return &Fail{Sig: "getattr:wrong-element", Expected: "error or " + ex.repr, Observed: it.S + " (" + desc + ")"}
		}
	}
	return nil
}

func init() {
	p := &Property{
		ID:        "C16",
		Level:     "exploration",
		Technique: "complete grids container x key and method x argument list against a direct Go model, plus property-based testing (rapid) of iteration invariants",
		Rule: "attribute lookup: the complete grid of ~37 containers (maps keyed by string/int/uint8/bool/float64/interface{}, slices, arrays, structs with exported/unexported/embedded fields and value/pointer-receiver methods, pointers, nil pointers, nil maps and slices, scalars) x ~42 keys (strings, all numeric kinds, bool, nil, composite) and 13 methods x ~60 argument lists; " +
			"oracle: a direct Go model - the element for a correctly typed key/index/field/call, error for absent, out-of-range, nil container, wrong arity or unusable key/argument type (or the element a documented coercion selects), never a panic. " +
			"Iteration: generated slices/arrays/maps (length 0-9, several element and key types, through pointers, nil) - callback count == Len, slices in index order, maps as a multiset, loop metadata relations, Len/Contains/IsIterable/IsArray/IsMap agree. " +
			"Non-trivial: key kind differs from the container's key kind, or the container is a pointer / nil, or a method is called with >= 1 argument; iteration length >= 2; distinct by case. Also: maps keyed at the edge of uint8/uint16/uint32/int8 probed with keys of the other signedness, a method with a uint8 parameter, and string-keyed maps whose iteratee adds entries during the traversal (the metadata of the traversal performed must stay coherent); lists behind a pointer that the iteratee cuts to half; numeric-keyed maps probed with the plain spelling of an existing key (names.1) and with numbers that reach an existing key only by wrapping around; the Twig length filter agrees with the number of steps.",
		Assumptions: []string{"the menagerie (worker/values.go) is a fixed, documented list of Go types; values a host could pass are unbounded"},
	}
	attr := NewSub(p, "getattr", func(c *Ctx, cs *c16Case) *Fail {
		r := c.SB.Do(&sb.Req{Op: "getattr", Vals: []sb.V{cs.C}, Keys: []sb.V{cs.K}, Args: [][]sb.V{cs.Args}})
		if r.Fatal() || r.Status != "ok" {
			return fatalFail(r)
		}
		key, _ := jsonStr(cs)
		_, np := unwrapPtr(cs.C)
		nt := np > 0 || strings.HasPrefix(cs.C.K, "nil") || len(cs.Args) > 0 || (cs.K.K != "str" && !strings.Contains(cs.C.K, "arr"))
		c.Ev.Count(key, nt, "expect:"+expectAttr(cs.C, cs.K, cs.Args).mode)
		if nt {
			c.Ev.Sample(map[string]interface{}{"container": cs.C, "key": cs.K, "args": cs.Args, "observed": r.Items[0].Status + " " + r.Items[0].S})
		}
		return judgeAttr(cs, r.Items[0])
	})
	tplAttr := NewSub(p, "template-attr", func(c *Ctx, cs *c16Case) *Fail {
		r := c.SB.Do(&sb.Req{Op: "exec", Env: "core", Loader: "string", Entry: "{{ v[k] }}|{% for x in v %}.{% endfor %}", Ctx: map[string]sb.V{"v": cs.C, "k": cs.K}})
		key, _ := jsonStr(cs)
		c.Ev.Count("tpl"+key, true, "template-attr")
		if r.Fatal() || r.Status == "infra" {
			return fatalFail(r)
		}
		return nil
	})
	iter := NewSub(p, "iterate", func(c *Ctx, cs *c16Iter) *Fail {
		req := &sb.Req{Op: "iterate", Vals: []sb.V{cs.C}, Args: [][]sb.V{cs.Probe}}
		if cs.Grow > 0 {
			req.Extra = map[string]string{"grow": strconv.Itoa(cs.Grow)}
		}
		r := c.SB.Do(req)
		if r.Fatal() || r.Status != "ok" {
			return fatalFail(r)
		}
		key, _ := jsonStr(cs)
		if cs.C.K == "sharedrows" || cs.C.K == "sharedrows2" {
			// a list that is not in there is not found at the second meeting
			// with the same row object either; the one that is there is found
			c.Ev.Count(key, true, "iter:shared-rows")
			if it := r.Items[0]; it.Status != "ok" || !strings.Contains(it.S, "contains=false,false;contains=true,false") {
				return &Fail{Sig: "iterate:contains-shared-row", Expected: "contains=false,false;contains=true,false", Observed: it.Status + " " + it.S + it.Msg}
			}
			return nil
		}
		if cs.C.K == "aliastables" {
			// the table is in the list, its first row (a list that starts at the
			// same address and has the same length) is not
			c.Ev.Count(key, true, "iter:aliased-lists")
			if it := r.Items[0]; it.Status != "ok" || !strings.Contains(it.S, "contains=true,false;contains=false,false") {
				return &Fail{Sig: "iterate:contains-aliased", Expected: "contains=true,false;contains=false,false", Observed: it.Status + " " + it.S + it.Msg}
			}
			return nil
		}
		if cs.Grow > 0 {
			c.Ev.Count(key, true, map[bool]string{true: "iter:growing-map", false: "iter:shrinking-list"}[strings.Contains(key, `"hash"`)])
			return judgeGrowing(cs, r.Items[0])
		}
		inner, np := unwrapPtr(cs.C)
		c.Ev.Count(key, len(inner.E) >= 2, "iter:"+strings.SplitN(inner.K, ":", 2)[0], fmt.Sprintf("ptr-depth:%d", np))
		if len(inner.E) >= 2 {
			c.Ev.Sample(map[string]interface{}{"container": cs.C, "steps": r.Items[0].L})
		}
		return judgeIter(cs, r.Items[0])
	})

	p.Run = func(c *Ctx) {
		conts, keys := c16Containers(), c16Keys()
		idx := 0
		done := true
		// grid container x key (batched per container)
		for _, cont := range conts {
			idx++
			if !c.Mine(idx) {
				continue
			}
			req := &sb.Req{Op: "getattr"}
			for _, k := range keys {
				req.Vals = append(req.Vals, cont)
				req.Keys = append(req.Keys, k)
				req.Args = append(req.Args, nil)
			}
			r := c.SB.DoOnce(req)
			for i, k := range keys {
				cs := &c16Case{C: cont, K: k}
				if r.Status == "ok" && i < len(r.Items) && judgeAttr(cs, r.Items[i]) == nil {
					key, _ := jsonStr(cs)
					_, np := unwrapPtr(cont)
					nt := np > 0 || strings.HasPrefix(cont.K, "nil") || (k.K != "str" && !strings.Contains(cont.K, "arr"))
					c.Ev.Count(key, nt, "expect:"+expectAttr(cont, k, nil).mode, "grid:container-x-key")
					continue
				}
				if !attr.Check(c, cs) {
					done = false
				}
			}
			for _, k := range keys {
				if !tplAttr.Check(c, &c16Case{C: cont, K: k}) {
					done = false
				}
			}
		}
		c.Ev.S.Exhaustive["container_x_key"] = done
		// grid method x argument list on value, pointer and embedding struct
		done = true
		persons := []sb.V{{K: "person", S: "Bob", N: 30}, {K: "ptr", E: []sb.V{{K: "person", S: "Ann", N: 5}}}, {K: "embedder", S: "Eve", N: 41}}
		type recv struct {
			v     sb.V
			meths []string
		}
		recvs := []recv{}
		for _, per := range persons {
			recvs = append(recvs, recv{per, c16Methods()})
		}
		// functions held in a hash, methods of a named map type and of a defined integer type
		recvs = append(recvs, recv{sb.V{K: "funcmap"}, []string{"url", "zero", "n", "nope"}}, recv{sb.V{K: "values"}, []string{"Get", "Encode", "a", "nope"}},
			recv{sb.V{K: "level", N: 2}, []string{"Next", "nope"}}, recv{sb.V{K: "ptr", E: []sb.V{{K: "values"}}}, []string{"Get", "Encode"}})
		for _, rc := range recvs {
			per := rc.v
			for mi, methName := range append(append([]string(nil), rc.meths...), rc.meths...) {
				idx++
				if !c.Mine(idx) {
					continue
				}
				// every method also under a name that is marked as safe
				meth := vstr(methName)
				if mi >= len(rc.meths) {
					meth = sb.V{K: "safe", TS: []string{"html"}, E: []sb.V{vstr(methName)}}
				}
				lists := c16ArgLists()
				req := &sb.Req{Op: "getattr"}
				for _, al := range lists {
					req.Vals = append(req.Vals, per)
					req.Keys = append(req.Keys, meth)
					req.Args = append(req.Args, al)
				}
				r := c.SB.DoOnce(req)
				for i, al := range lists {
					cs := &c16Case{C: per, K: meth, Args: al}
					if r.Status == "ok" && i < len(r.Items) && judgeAttr(cs, r.Items[i]) == nil {
						key, _ := jsonStr(cs)
						c.Ev.Count(key, len(al) > 0, "expect:"+expectAttr(per, meth, al).mode, "grid:method-x-args")
						continue
					}
					if !attr.Check(c, cs) {
						done = false
					}
				}
			}
		}
		c.Ev.S.Exhaustive["method_x_args"] = done
		// random: nested containers and iteration
		attr.Rapid(c, c.Share(c.Pick(10000, 1000000)), func(t *rapid.T) *c16Case {
			cont := rapid.SampledFrom(conts).Draw(t, "c")
			if rapid.IntRange(0, 3).Draw(t, "wrap") == 0 {
				cont = sb.V{K: "ptr", E: []sb.V{cont}}
			}
			cs := &c16Case{C: cont, K: rapid.SampledFrom(keys).Draw(t, "k")}
			inner, _ := unwrapPtr(cont)
			if inner.K == "person" || inner.K == "embedder" {
				if rapid.Bool().Draw(t, "meth") {
					cs.K = vstr(rapid.SampledFrom(c16Methods()).Draw(t, "m"))
				}
				cs.Args = rapid.SampledFrom(c16ArgLists()).Draw(t, "args")
			}
			return cs
		})
		if c.Shard == 0 {
			iter.Check(c, &c16Iter{C: sb.V{K: "aliastables"}, Probe: []sb.V{{K: "aliasrows"}, {K: "aliashead"}}})
		}
		if c.Mine(2) {
			arr := func(xs ...sb.V) sb.V { return sb.V{K: "arr", E: xs} }
			iter.Check(c, &c16Iter{C: sb.V{K: "sharedrows"}, Probe: []sb.V{arr(vnum(3), vnum(4)), arr(vnum(1), vnum(2))}})
			iter.Check(c, &c16Iter{C: sb.V{K: "sharedrows2"}, Probe: []sb.V{arr(arr(vnum(3), vnum(4)), vnum(2)), arr(arr(vnum(1), vnum(2)), vnum(2))}})
		}
		iter.Rapid(c, c.Share(c.Pick(10000, 1000000)), genIter)
		// string-keyed maps (direct and behind a pointer) that grow while iterated
		iter.Rapid(c, c.Share(c.Pick(1500, 100000)), func(t *rapid.T) *c16Iter {
			n := rapid.IntRange(1, 9).Draw(t, "n")
			h := sb.V{K: "hash"}
			for i := 0; i < n; i++ {
				h.KS = append(h.KS, fmt.Sprintf("k%d", i))
				h.E = append(h.E, vnum(float64(i)))
			}
			if rapid.Bool().Draw(t, "ptr") {
				h = sb.V{K: "ptr", E: []sb.V{h}}
			}
			return &c16Iter{C: h, Grow: rapid.IntRange(1, n).Draw(t, "at")}
		})
		// lists behind a pointer that are cut to half their length while iterated
		iter.Rapid(c, c.Share(c.Pick(1000, 60000)), func(t *rapid.T) *c16Iter {
			n := rapid.IntRange(1, 9).Draw(t, "n")
			l := sb.V{K: rapid.SampledFrom([]string{"arr", "slice:int", "slice:str"}).Draw(t, "kind")}
			for i := 0; i < n; i++ {
				if l.K == "slice:str" {
					l.E = append(l.E, vstr(fmt.Sprintf("e%d", i)))
				} else {
					l.E = append(l.E, vnum(float64(i)))
				}
			}
			return &c16Iter{C: sb.V{K: "ptr", E: []sb.V{l}}, Grow: rapid.IntRange(1, n).Draw(t, "at")}
		})
	}
	Register(p)
}

func genIter(t *rapid.T) *c16Iter {
	n := rapid.IntRange(0, 9).Draw(t, "len")
	var c sb.V
	elems := func(kind string) []sb.V {
		out := make([]sb.V, n)
		for i := range out {
			switch kind {
			case "str":
				out[i] = vstr(rapid.SampledFrom([]string{"a", "b", "c", "dd", ""}).Draw(t, "e") + strconv.Itoa(i))
			default:
				out[i] = vnum(float64(rapid.IntRange(0, 20).Draw(t, "e")*10 + i))
			}
		}
		return out
	}
	switch rapid.IntRange(0, 13).Draw(t, "ck") {
	case 13:
		// a map keyed by floats, some of its keys NaN: such an entry cannot be
		// looked up again, it is there all the same and is visited like the rest
		c = sb.V{K: "map:float64:str", E: elems("str")}
		nans := rapid.IntRange(0, 2).Draw(t, "nans")
		for i := 0; i < n; i++ {
			if i < nans {
				c.KV = append(c.KV, sb.V{K: "nan"})
			} else {
				c.KV = append(c.KV, vk("float64", float64(i)+0.5))
			}
		}
	case 12:
		// a list of structs: membership is decided by the struct, not by the
		// (empty) string every struct coerces to
		c = sb.V{K: "slice:any"}
		for i := 0; i < n; i++ {
			c.E = append(c.E, sb.V{K: "person", S: "p" + strconv.Itoa(i), N: float64(20 + i)})
		}
	case 0:
		c = sb.V{K: "arr", E: elems("num")}
	case 1:
		c = sb.V{K: "slice:int", E: elems("num")}
	case 2:
		c = sb.V{K: "slice:str", E: elems("str")}
	case 3:
		if n > 4 {
			n = 4
		}
		c = sb.V{K: "array:int", E: elems("num")}
	case 4:
		c = sb.V{K: "slice:float64", E: elems("num")}
	case 5:
		c = sb.V{K: "hash", E: elems("num")}
		for i := 0; i < n; i++ {
			c.KS = append(c.KS, "k"+strconv.Itoa(i))
		}
	case 6:
		c = sb.V{K: "map:int:str", E: elems("str")}
		for i := 0; i < n; i++ {
			c.KV = append(c.KV, vk("int", float64(i*3)))
		}
	case 7:
		c = sb.V{K: "map:str:int", E: elems("num")}
		for i := 0; i < n; i++ {
			c.KV = append(c.KV, vstr("k"+strconv.Itoa(i)))
		}
	case 8:
		c = rapid.SampledFrom([]sb.V{{K: "null"}, {K: "nilslice:int"}, {K: "nilmap:str"}, {K: "nilptr:slice"}, {K: "nilptr:map"}}).Draw(t, "nil")
	case 9:
		c = rapid.SampledFrom([]sb.V{vnum(3), vstr("abc"), {K: "bool", B: true}, {K: "person", S: "x"}, {K: "chan"}}).Draw(t, "scalar")
	case 10:
		c = sb.V{K: "slice:any", E: elems("str")}
		if rapid.Bool().Draw(t, "nested") {
			// elements that are themselves containers (uncomparable Go values)
			for i := range c.E {
				c.E[i] = sb.V{K: "arr", E: []sb.V{vnum(float64(i))}}
			}
		}
	default:
		c = sb.V{K: "map:any:int", E: elems("num")}
		for i := 0; i < n; i++ {
			c.KV = append(c.KV, vstr("k"+strconv.Itoa(i)))
		}
	}
	for i, k := 0, rapid.IntRange(0, 2).Draw(t, "ptrs"); i < k && i < 1; i++ {
		c = sb.V{K: "ptr", E: []sb.V{c}}
	}
	cs := &c16Iter{C: c}
	inner, _ := unwrapPtr(c)
	for _, e := range inner.E {
		cs.Probe = append(cs.Probe, e)
	}
	cs.Probe = append(cs.Probe, vstr("foreign!"), vnum(-12345), sb.V{K: "arr", E: []sb.V{vnum(999)}}, sb.V{K: "person", S: "nobody", N: 1}, sb.V{K: "hash", KS: []string{"zz"}, E: []sb.V{vnum(1)}})
	return cs
}

// judgeGrowing judges a traversal during which the iteratee added entries to
// the map: whatever the traversal covers, its metadata must be coherent (one
// length, consecutive indices, first only on the first and last only on the
// final step performed, as many steps as the length announces).
func judgeGrowing(cs *c16Iter, it sb.Item) *Fail {
	if it.Status == "panic" {
		return &Fail{Sig: "panic:" + it.Site + ":" + normMsg(it.Msg), Expected: "no panic", Observed: it.Msg}
	}
	bad := func(exp, obs string) *Fail {
		return &Fail{Sig: "iterate:growing-map", Expected: exp, Observed: obs + fmt.Sprintf(" (steps %v)", it.L)}
	}
	if it.Status != "ok" {
		return bad("ok", it.Status+": "+it.Msg)
	}
	m := len(it.L)
	seen := map[string]bool{}
	for i, step := range it.L {
		parts := strings.SplitN(step, "|", 2)
		if seen[parts[0]] {
			return bad("every entry at most once", "twice: "+parts[0])
		}
		seen[parts[0]] = true
		var index, index0, rev, rev0, length int
		var first, last bool
		fmt.Sscanf(strings.NewReplacer(",", " ").Replace(parts[1]), "%d %d %d %d %t %t %d", &index, &index0, &rev, &rev0, &first, &last, &length)
		if index != i+1 || index0 != i || rev != length-i || rev0 != length-i-1 || length != m || first != (i == 0) || last != (i == m-1) {
			return bad(fmt.Sprintf("step %d of %d: index=%d index0=%d revindex=length-%d revindex0=length-%d length=%d first=%v last=%v", i, m, i+1, i, i, i+1, m, i == 0, i == m-1), parts[1])
		}
	}
	if int(it.N) != m {
		return bad(fmt.Sprintf("returned count %d", m), fmt.Sprint(it.N))
	}
	return nil
}

func judgeIter(cs *c16Iter, it sb.Item) *Fail {
	if it.Status == "panic" {
		return &Fail{Sig: "panic:" + it.Site + ":" + normMsg(it.Msg), Expected: "no panic", Observed: it.Msg}
	}
	inner, np := unwrapPtr(cs.C)
	_ = np
	isSeq := inner.K == "arr" || strings.HasPrefix(inner.K, "slice:") || strings.HasPrefix(inner.K, "array:") || strings.HasPrefix(inner.K, "nilslice:")
	isMap := inner.K == "hash" || strings.HasPrefix(inner.K, "map:") || strings.HasPrefix(inner.K, "nilmap:")
	flags := map[string]string{}
	var contains []string
	for _, part := range strings.Split(it.S, ";") {
		kv := strings.SplitN(part, "=", 2)
		if len(kv) == 2 {
			if kv[0] == "contains" {
				contains = append(contains, kv[1])
			} else {
				flags[kv[0]] = kv[1]
			}
		}
	}
	bad := func(sig, exp, obs string) *Fail {
		return &Fail{Sig: "iterate:" + sig, Expected: exp, Observed: obs + fmt.Sprintf(" (container %s, steps %v, flags %s)", cs.C.K, it.L, it.S)}
	}
	if cs.C.K == "null" {
		if it.Status != "ok" || len(it.L) != 0 || flags["len"] != "0,false" || flags["iterable"] != "true" {
			return bad("nil", "zero steps, length 0, iterable", it.Status)
		}
		return nil
	}
	if !isSeq && !isMap {
		// non-iterable (or nil pointer): an error, consistently
		if it.Status != "error" || flags["iterable"] != "false" || !strings.HasSuffix(flags["len"], ",true") {
			return bad("non-iterable", "error from Iterate and Len, IsIterable false", it.Status)
		}
		return nil
	}
	n := len(inner.E)
	if it.Status != "ok" || len(it.L) != n || int(it.N) != n {
		return bad("count", fmt.Sprintf("%d steps", n), fmt.Sprintf("%s, %d steps, returned %v", it.Status, len(it.L), it.N))
	}
	if flags["len"] != fmt.Sprintf("%d,false", n) || flags["iterable"] != "true" || flags["array"] != fmt.Sprint(isSeq) || flags["map"] != fmt.Sprint(isMap) {
		return bad("predicates", fmt.Sprintf("len=%d iterable array=%v map=%v", n, isSeq, isMap), it.S)
	}
	if flags["lengthfilter"] != "#"+strconv.Itoa(n) {
		return bad("length-filter", fmt.Sprintf("|length = %d, the number of steps", n), "lengthfilter="+flags["lengthfilter"])
	}
	var want, got []string
	for i := 0; i < n; i++ {
		var k string
		switch {
		case isSeq:
			k = "#" + strconv.Itoa(i)
		case inner.K == "hash":
			k = strconv.Quote(inner.KS[i])
		default:
			k = reprV(inner.KV[i])
		}
		want = append(want, k+"="+reprElemOf(inner, i))
	}
	for i, step := range it.L {
		parts := strings.SplitN(step, "|", 2)
		got = append(got, parts[0])
		var index, index0, rev, rev0, length int
		var first, last bool
		fmt.Sscanf(strings.NewReplacer(",", " ").Replace(parts[1]), "%d %d %d %d %t %t %d", &index, &index0, &rev, &rev0, &first, &last, &length)
		if index != i+1 || index0 != i || rev != n-i || rev0 != n-i-1 || length != n || first != (i == 0) || last != (i == n-1) {
			return bad("metadata", fmt.Sprintf("step %d of %d: index=%d index0=%d revindex=%d revindex0=%d first=%v last=%v", i, n, i+1, i, n-i, n-i-1, i == 0, i == n-1), parts[1])
		}
	}
	if isMap {
		sort.Strings(want)
		sort.Strings(got)
	}
	if strings.Join(want, " ") != strings.Join(got, " ") {
		return bad("elements", strings.Join(want, " "), strings.Join(got, " "))
	}
	// containment: every element is found, the two foreign probes are not
	for i, cv := range contains {
		wantc := "true,false"
		if i >= n {
			wantc = "false,false"
		}
		if cv != wantc {
			return bad("contains", fmt.Sprintf("probe %d: %s", i, wantc), cv)
		}
	}
	return nil
}
