// Package findings reads the committed KNOWN_FINDINGS.txt. The file is never
// written at run time.
//
//	known: property=<ID> id=<slug> class=<signature> witness=<file> :: <what fails>
//	fixed: property=<ID> <commit> <what failed>
package findings

import (
	"bufio"
	"os"
	"strings"
)

type Known struct {
	Property string
	ID       string
	Class    string // exact signature (or prefix when it ends in '*')
	Witness  string
	What     string
}

type Set struct {
	Known []Known
	Fixed []string
}

func Load(path string) (*Set, error) {
	s := &Set{}
	f, err := os.Open(path)
	if err != nil {
		if os.IsNotExist(err) {
			return s, nil
		}
		return nil, err
	}
	defer f.Close()
	sc := bufio.NewScanner(f)
	sc.Buffer(make([]byte, 1<<20), 1<<20)
	for sc.Scan() {
		line := strings.TrimSpace(sc.Text())
		if line == "" || strings.HasPrefix(line, "#") {
			continue
		}
		if strings.HasPrefix(line, "fixed:") {
			s.Fixed = append(s.Fixed, line)
			continue
		}
		if !strings.HasPrefix(line, "known:") {
			continue
		}
		head, what := line[6:], ""
		if i := strings.Index(line, "::"); i >= 0 {
			head, what = line[6:i], strings.TrimSpace(line[i+2:])
		}
		k := Known{What: what}
		for _, f := range strings.Fields(head) {
			kv := strings.SplitN(f, "=", 2)
			if len(kv) != 2 {
				continue
			}
			switch kv[0] {
			case "property":
				k.Property = kv[1]
			case "id":
				k.ID = kv[1]
			case "class":
				k.Class = kv[1]
			case "witness":
				k.Witness = kv[1]
			}
		}
		if k.Property != "" && k.Class != "" {
			s.Known = append(s.Known, k)
		}
	}
	return s, sc.Err()
}

// Match returns the known finding of property prop whose class equals sig.
func (s *Set) Match(prop, sig string) *Known {
	for i := range s.Known {
		k := &s.Known[i]
		if k.Property != prop {
			continue
		}
		if k.Class == sig {
			return k
		}
		if strings.HasSuffix(k.Class, "*") && strings.HasPrefix(sig, strings.TrimSuffix(k.Class, "*")) {
			return k
		}
	}
	return nil
}

// For returns all known findings of a property.
func (s *Set) For(prop string) []Known {
	var out []Known
	for _, k := range s.Known {
		if k.Property == prop {
			out = append(out, k)
		}
	}
	return out
}
