// Package sb is the sandbox: every piece of stick code runs in a child
// process ("worker") that the parent drives over a pipe. The parent owns
// generation, the model, the oracle, shrinking and evidence; the child only
// executes stick on a serialised case and returns an observation.
package sb

import (
	"encoding/base64"
	"encoding/json"
	"unicode/utf8"
)

// BS is a byte string that survives JSON (replay files): valid UTF-8 is
// written as a plain JSON string, anything else as {"b64": "..."}.
type BS string

func (b BS) MarshalJSON() ([]byte, error) {
	if utf8.ValidString(string(b)) {
		return json.Marshal(string(b))
	}
	return json.Marshal(map[string]string{"b64": base64.StdEncoding.EncodeToString([]byte(b))})
}

func (b *BS) UnmarshalJSON(data []byte) error {
	var s string
	if err := json.Unmarshal(data, &s); err == nil {
		*b = BS(s)
		return nil
	}
	var m map[string]string
	if err := json.Unmarshal(data, &m); err != nil {
		return err
	}
	raw, err := base64.StdEncoding.DecodeString(m["b64"])
	if err != nil {
		return err
	}
	*b = BS(raw)
	return nil
}

// V is a serialisable description of a Go value handed to stick as context
// data (and of values observed in callbacks). K selects the Go kind.
//
//	null                      nil
//	bool                      B
//	num                       N as float64
//	int,int8..uint64,float32  N converted to that Go type
//	str                       S
//	arr                       []stick.Value of E
//	hash                      map[string]stick.Value, keys KS (order kept for printing), values E
//	slice:<t>                 typed slice ([]int, []string, []float64, []bool, []interface{}) of E
//	array:<t>                 typed Go array (length len(E) <= 4) of E
//	map:<kt>:<vt>             typed map; keys in KV, values E
//	ptr                       pointer to E[0]
//	nilptr:<t>                typed nil pointer
//	struct:<name>             menagerie struct with fields from E / S / N
//	safe                      stick.NewSafeValue(E[0], TS...)
//	stringer,number,boolean   types implementing exactly that interface
//	decimal                   decimal.Decimal parsed from S
//	chan, func                unsupported kinds
type V struct {
	K  string   `json:"k"`
	B  bool     `json:"b,omitempty"`
	N  float64  `json:"n,omitempty"`
	S  string   `json:"s,omitempty"`
	E  []V      `json:"e,omitempty"`
	KS []string `json:"ks,omitempty"`
	KV []V      `json:"kv,omitempty"`
	TS []string `json:"ts,omitempty"`
}

// Req is one request to the worker.
type Req struct {
	Op string `json:"op"`

	// Environment.
	Env       string            `json:"env,omitempty"`    // "core" | "twig"
	Loader    string            `json:"loader,omitempty"` // "string" | "memory" | "fs"
	Templates map[string]string `json:"tpls,omitempty"`
	Entry     string            `json:"entry,omitempty"`
	Ctx       map[string]V      `json:"ctx,omitempty"`

	Safe         bool `json:"safe,omitempty"`      // ExecuteSafe instead of Execute
	WriteFailAt  int  `json:"wfail,omitempty"`     // k-th Write fails (1-based); 0 = never
	WriteMode    int  `json:"wmode,omitempty"`     // 0: n=0,err  1: short write + err
	LoadFailAt   int  `json:"lfail,omitempty"`     // k-th Load fails (1-based); 0 = never
	LoadFailMode int  `json:"lfailmode,omitempty"` // 0: Load returns an error; 1: the template's reader fails half-way; 2: it fails at once
	WantTree     bool `json:"tree,omitempty"`      // parse: return node positions
	WantWrites   bool `json:"writes,omitempty"`    // record every Write
	ParseOnly    bool `json:"parseonly,omitempty"` // exec op: only Env.Parse
	DeadlineMs   int  `json:"dl,omitempty"`
	Yield        int  `json:"yield,omitempty"` // conc: scheduling perturbation pattern
	Procs        int  `json:"procs,omitempty"`
	GoroutineCap int  `json:"gcap,omitempty"`

	// Generic payloads for the value-level operations.
	Strs  []string          `json:"strs,omitempty"`
	Vals  []V               `json:"vals,omitempty"`
	Keys  []V               `json:"keys,omitempty"`
	Args  [][]V             `json:"args,omitempty"`
	Name  string            `json:"name,omitempty"`
	Calls []Call            `json:"calls,omitempty"` // conc / leak histories
	Extra map[string]string `json:"extra,omitempty"`
}

// Call is one element of a concurrent workload or a call history.
type Call struct {
	Kind   string       `json:"kind"` // "execute" | "parse" | "safe"
	Env    string       `json:"env,omitempty"`
	Loader string       `json:"loader,omitempty"`
	Entry  string       `json:"entry"`
	Ctx    map[string]V `json:"ctx,omitempty"`
}

// Node is one node of a parsed tree, in the order of a pre-order walk.
type Node struct {
	Kind  string `json:"kind"`
	Line  int    `json:"line"`
	Off   int    `json:"off"`
	Text  string `json:"text,omitempty"`
	Depth int    `json:"depth"`
}

// CallRec is one recorded invocation of a registered callback.
type CallRec struct {
	Name string   `json:"name"`
	Args []string `json:"args"` // canonical repr of every argument
	Tpl  string   `json:"tpl"`  // Context.Name() at the time of the call
	Ret  string   `json:"ret,omitempty"`
}

// Result of a single sub-call (conc / leak operations).
type SubResp struct {
	Out string `json:"out"`
	Err string `json:"err,omitempty"`
	IsE bool   `json:"ise,omitempty"`
}

// Resp is the worker's observation.
type Resp struct {
	// Status: ok | error | panic | crash | hang | oom | infra
	Status string `json:"status"`
	Out    string `json:"out,omitempty"`
	Err    string `json:"err,omitempty"`

	ErrLine  int    `json:"eline,omitempty"`
	ErrOff   int    `json:"eoff,omitempty"`
	ErrHas   bool   `json:"ehas,omitempty"` // error exposes a position
	ErrName  string `json:"ename,omitempty"`
	ErrType  string `json:"etype,omitempty"`
	PanicMsg string `json:"pmsg,omitempty"`
	Site     string `json:"site,omitempty"`
	Stack    string `json:"stack,omitempty"`

	Tree    []Node    `json:"tree,omitempty"`
	TreeStr string    `json:"treestr,omitempty"`
	Calls   []CallRec `json:"calls,omitempty"`
	Writes  []string  `json:"writes,omitempty"`
	// WritesAfterFail counts Write calls made after the injected failure.
	WritesAfterFail int `json:"waf,omitempty"`
	NWrites         int `json:"nw,omitempty"`
	NLoads          int `json:"nl,omitempty"`

	Strs []string          `json:"strs,omitempty"`
	Subs []SubResp         `json:"subs,omitempty"`
	Subs2 []SubResp        `json:"subs2,omitempty"`

	Goroutines []string `json:"gor,omitempty"` // leaked goroutines (stick frames)
	FDs        []string `json:"fds,omitempty"` // leaked descriptors
	Race       string   `json:"race,omitempty"`

	Items []Item `json:"items,omitempty"`
}

// Item is a generic per-element observation used by the value-level ops
// (coerce, getattr, iterate, escape).
type Item struct {
	Status string   `json:"st"` // ok | error | panic
	S      string   `json:"s,omitempty"`
	S2     string   `json:"s2,omitempty"`
	N      float64  `json:"n,omitempty"`
	NS     string   `json:"ns,omitempty"` // float formatted exactly ('g', -1) to survive JSON (NaN, Inf)
	B      bool     `json:"b,omitempty"`
	L      []string `json:"l,omitempty"`
	Msg    string   `json:"msg,omitempty"`
	Site   string   `json:"site,omitempty"`
}

// Fatal reports whether the status is one of the process-level failures that
// no property tolerates.
func (r *Resp) Fatal() bool {
	switch r.Status {
	case "panic", "crash", "hang", "oom":
		return true
	}
	return false
}
