package sb

import (
	"bufio"
	"bytes"
	"encoding/binary"
	"encoding/gob"
	"fmt"
	"io"
	"os"
	"os/exec"
	"regexp"
	"strings"
	"sync"
	"syscall"
	"time"
)

// Exit codes reserved by the worker.
const (
	ExitHang = 97
	ExitOOM  = 98
)

// DefaultDeadlineMs is the per-case working deadline inside the worker.
const DefaultDeadlineMs = 2000

// ConfirmDeadlineMs is the deadline used when a hang verdict is re-checked.
const ConfirmDeadlineMs = 10000

// Sandbox owns one persistent worker process.
type Sandbox struct {
	Bin  string   // worker binary (defaults to os.Args[0])
	Args []string // defaults to ["--worker"]
	Env  []string

	mu     sync.Mutex
	cmd    *exec.Cmd
	in     io.WriteCloser
	out    *bufio.Reader
	errBuf *lockedBuf
	done   chan struct{}

	Spawns    int
	Requests  int
	Flakes    int // hang verdicts that did not confirm
	LastFlake string
}

type lockedBuf struct {
	mu sync.Mutex
	b  bytes.Buffer
}

func (l *lockedBuf) Write(p []byte) (int, error) {
	l.mu.Lock()
	defer l.mu.Unlock()
	if l.b.Len() < 4<<20 {
		l.b.Write(p)
	}
	return len(p), nil
}
func (l *lockedBuf) String() string {
	l.mu.Lock()
	defer l.mu.Unlock()
	return l.b.String()
}

// New returns a sandbox that re-executes the current binary as its worker.
func New() *Sandbox {
	exe, err := os.Executable()
	if err != nil {
		exe = os.Args[0]
	}
	return &Sandbox{Bin: exe, Args: []string{"--worker"}}
}

func (s *Sandbox) start() error {
	cmd := exec.Command(s.Bin, s.Args...)
	cmd.Env = append(os.Environ(), s.Env...)
	cmd.Env = append(cmd.Env, "GOTRACEBACK=all")
	in, err := cmd.StdinPipe()
	if err != nil {
		return err
	}
	out, err := cmd.StdoutPipe()
	if err != nil {
		return err
	}
	eb := &lockedBuf{}
	cmd.Stderr = eb
	cmd.SysProcAttr = &syscall.SysProcAttr{Pdeathsig: syscall.SIGKILL}
	if err := cmd.Start(); err != nil {
		return err
	}
	s.cmd, s.in, s.out, s.errBuf = cmd, in, bufio.NewReaderSize(out, 1<<16), eb
	s.done = make(chan struct{})
	go func(c *exec.Cmd, d chan struct{}) { c.Wait(); close(d) }(cmd, s.done)
	s.Spawns++
	return nil
}

// Close terminates the worker.
func (s *Sandbox) Close() {
	s.mu.Lock()
	defer s.mu.Unlock()
	s.kill()
}

func (s *Sandbox) kill() {
	if s.cmd == nil {
		return
	}
	s.in.Close()
	if s.cmd.Process != nil {
		s.cmd.Process.Kill()
	}
	<-s.done
	s.cmd = nil
}

// Do executes one request. A hang verdict is confirmed (twice, in fresh
// workers with a longer deadline) before it is returned; a timeout that does
// not confirm is counted as a flake and the confirmed observation is returned
// instead.
func (s *Sandbox) Do(req *Req) *Resp {
	s.mu.Lock()
	defer s.mu.Unlock()
	r := s.do(req)
	if r.Status == "hang" {
		saved := req.DeadlineMs
		req.DeadlineMs = ConfirmDeadlineMs
		defer func() { req.DeadlineMs = saved }()
		for i := 0; i < 2; i++ {
			s.kill()
			r2 := s.do(req)
			if r2.Status != "hang" {
				s.Flakes++
				s.LastFlake = r.Stack
				return r2
			}
			r = r2
		}
	}
	return r
}

// DoOnce executes one request without hang confirmation.
func (s *Sandbox) DoOnce(req *Req) *Resp {
	s.mu.Lock()
	defer s.mu.Unlock()
	return s.do(req)
}

func (s *Sandbox) do(req *Req) *Resp {
	s.Requests++
	if s.cmd == nil {
		if err := s.start(); err != nil {
			return &Resp{Status: "infra", Err: "spawn: " + err.Error()}
		}
	}
	dl := req.DeadlineMs
	if dl == 0 {
		dl = DefaultDeadlineMs
	}
	var pbuf bytes.Buffer
	if err := gob.NewEncoder(&pbuf).Encode(req); err != nil {
		return &Resp{Status: "infra", Err: "marshal: " + err.Error()}
	}
	payload := pbuf.Bytes()
	var hdr [4]byte
	binary.LittleEndian.PutUint32(hdr[:], uint32(len(payload)))
	type rd struct {
		buf []byte
		err error
	}
	ch := make(chan rd, 1)
	go func(in io.Writer, out *bufio.Reader) {
		if _, err := in.Write(append(hdr[:], payload...)); err != nil {
			ch <- rd{nil, err}
			return
		}
		var h [4]byte
		if _, err := io.ReadFull(out, h[:]); err != nil {
			ch <- rd{nil, err}
			return
		}
		n := binary.LittleEndian.Uint32(h[:])
		b := make([]byte, n)
		if _, err := io.ReadFull(out, b); err != nil {
			ch <- rd{nil, err}
			return
		}
		ch <- rd{b, nil}
	}(s.in, s.out)

	timer := time.NewTimer(time.Duration(dl)*time.Millisecond + 5*time.Second)
	defer timer.Stop()
	select {
	case r := <-ch:
		if r.err == nil {
			var resp Resp
			if err := gob.NewDecoder(bytes.NewReader(r.buf)).Decode(&resp); err != nil {
				s.kill()
				return &Resp{Status: "infra", Err: "unmarshal: " + err.Error()}
			}
			return &resp
		}
		// The worker died. Collect its exit status and stderr.
		select {
		case <-s.done:
		case <-time.After(5 * time.Second):
			s.cmd.Process.Kill()
			<-s.done
		}
		code := -1
		if s.cmd.ProcessState != nil {
			code = s.cmd.ProcessState.ExitCode()
		}
		stderr := s.errBuf.String()
		s.cmd = nil
		return classifyDeath(code, stderr)
	case <-timer.C:
		// The worker's own watchdog did not fire (e.g. stop-the-world stuck).
		stderr := ""
		if s.errBuf != nil {
			stderr = s.errBuf.String()
		}
		s.kill()
		return &Resp{Status: "hang", Stack: tail(stderr, 8000), Site: firstStickFrame(stderr), PanicMsg: "parent-side timeout"}
	}
}

var reFrame = regexp.MustCompile(`(?m)^(github\.com/tyler-sommer/stick[^\s(]*(?:\([^)]*\))?[^\s(]*)\(`)

// firstStickFrame returns the innermost stick function in a runtime dump.
func firstStickFrame(dump string) string {
	// Prefer the running / panicking goroutine: the first goroutine block.
	m := reFrame.FindStringSubmatch(dump)
	if m == nil {
		return ""
	}
	return strings.TrimPrefix(m[1], "github.com/tyler-sommer/")
}

// StickFrame is exported for the worker (recovered panics).
func StickFrame(dump string) string { return firstStickFrame(dump) }

func tail(s string, n int) string {
	if len(s) <= n {
		return s
	}
	return s[:n/2] + "\n...\n" + s[len(s)-n/2:]
}

func classifyDeath(code int, stderr string) *Resp {
	r := &Resp{Stack: tail(stderr, 12000)}
	switch {
	case code == ExitHang || strings.Contains(stderr, "VERIF-HANG"):
		r.Status = "hang"
		// The dump lists all goroutines; find a running/runnable stick frame.
		r.Site = hangSite(stderr)
		r.PanicMsg = "deadline exceeded"
	case code == ExitOOM || strings.Contains(stderr, "VERIF-OOM") ||
		strings.Contains(stderr, "out of memory") || strings.Contains(stderr, "cannot allocate memory"):
		r.Status = "oom"
		r.Site = hangSite(stderr)
		r.PanicMsg = "memory limit exceeded"
	case strings.Contains(stderr, "stack exceeds") || strings.Contains(stderr, "stack overflow"):
		r.Status = "crash"
		r.PanicMsg = "stack overflow"
		r.Site = firstStickFrame(stderr)
	case strings.Contains(stderr, "all goroutines are asleep"):
		r.Status = "crash"
		r.PanicMsg = "deadlock"
		r.Site = firstStickFrame(stderr)
	case strings.Contains(stderr, "WARNING: DATA RACE"):
		r.Status = "crash"
		r.PanicMsg = "data race"
		r.Race = tail(stderr, 6000)
		r.Site = firstStickFrame(stderr)
	default:
		r.Status = "crash"
		r.PanicMsg = firstLineWith(stderr, "panic:", "fatal error:")
		if r.PanicMsg == "" {
			r.PanicMsg = fmt.Sprintf("worker exited with code %d", code)
			if code == -1 && stderr == "" {
				// Killed by a signal without a dump: infrastructure problem
				// (e.g. the OOM killer), not attributable to the case.
				r.Status = "infra"
			}
		}
		r.Site = firstStickFrame(stderr)
	}
	return r
}

func firstLineWith(s string, prefixes ...string) string {
	for _, line := range strings.Split(s, "\n") {
		for _, p := range prefixes {
			if strings.HasPrefix(line, p) {
				if len(line) > 300 {
					line = line[:300]
				}
				return line
			}
		}
	}
	return ""
}

// hangSite looks for a goroutine that is running or runnable inside stick; if
// none, the first stick frame of any goroutine (blocked).
func hangSite(dump string) string {
	blocks := strings.Split(dump, "\n\n")
	for _, b := range blocks {
		if strings.Contains(b, "[running]") || strings.Contains(b, "[runnable]") {
			if f := firstStickFrame(b); f != "" {
				return f
			}
		}
	}
	return firstStickFrame(dump)
}
