// Package ev collects coverage counters during a run and writes the evidence
// file in the schema the harness expects.
package ev

import (
	"encoding/json"
	"hash/fnv"
	"os"
	"sort"
)

// Violation is one reported failure.
type Violation struct {
	Property string          `json:"property"`
	Sub      string          `json:"sub"`
	Sig      string          `json:"signature"`
	Expected string          `json:"expected,omitempty"`
	Observed string          `json:"observed,omitempty"`
	Case     json.RawMessage `json:"case"`
	Replay   string          `json:"replay,omitempty"`
}

// Shard is what one shard process reports back to the driver.
type Shard struct {
	Evaluations int64            `json:"evaluations"`
	NonTrivial  []uint64         `json:"nontrivial"` // hashes of distinct non-trivial cases
	Labels      map[string]int64 `json:"labels"`
	Samples     []interface{}    `json:"samples"`
	Violations  []Violation      `json:"violations"`
	Known       map[string]int64 `json:"known"`    // suppressed, per known-finding id
	Excluded    map[string]int64 `json:"excluded"` // excluded by construction, per class
	Discarded   int64            `json:"discarded"`
	Regress     int64            `json:"regress"`
	Exhaustive  map[string]bool  `json:"exhaustive"`
	Flakes      int              `json:"flakes"`
	Spawns      int              `json:"spawns"`
	Infra       []string         `json:"infra"`
	KnownLines  []string         `json:"known_lines"`
	Notes       []string         `json:"notes"`
	Incomplete  bool             `json:"incomplete"`
}

// Collector accumulates one shard's counters.
type Collector struct {
	S       Shard
	seen    map[uint64]struct{}
	nsample int
	MaxSamp int
}

func NewCollector() *Collector {
	return &Collector{
		S: Shard{Labels: map[string]int64{}, Known: map[string]int64{}, Excluded: map[string]int64{},
			Exhaustive: map[string]bool{}},
		seen:    map[uint64]struct{}{},
		MaxSamp: 6,
	}
}

func hash64(s string) uint64 {
	h := fnv.New64a()
	h.Write([]byte(s))
	return h.Sum64()
}

// Count records one evaluated case. key identifies the case content (for
// distinctness); nontrivial is the property's stated rule applied to it.
func (c *Collector) Count(key string, nontrivial bool, labels ...string) {
	c.S.Evaluations++
	if nontrivial {
		h := hash64(key)
		if _, ok := c.seen[h]; !ok {
			c.seen[h] = struct{}{}
			c.S.NonTrivial = append(c.S.NonTrivial, h)
		}
	}
	for _, l := range labels {
		c.S.Labels[l]++
	}
}

func (c *Collector) Label(l string, n int64) { c.S.Labels[l] += n }

// Sample keeps a small deterministic selection of actual cases (the first few
// and then power-of-two positions).
func (c *Collector) Sample(v interface{}) {
	c.nsample++
	n := c.nsample
	if len(c.S.Samples) < c.MaxSamp/2 || (n&(n-1) == 0 && len(c.S.Samples) < c.MaxSamp) {
		c.S.Samples = append(c.S.Samples, v)
	} else if n&(n-1) == 0 && len(c.S.Samples) > 0 {
		c.S.Samples[len(c.S.Samples)-1] = v
	}
}

// Evidence is the file written per property and run.
type Evidence struct {
	PropertyID  string                 `json:"property_id"`
	Tier        string                 `json:"tier"`
	Seed        int64                  `json:"seed"`
	Level       string                 `json:"level"`
	Coverage    map[string]interface{} `json:"coverage"`
	Assumptions []string               `json:"assumptions"`
	WallS       float64                `json:"wall_s"`
	Violations  int                    `json:"violations"`
}

// Merge combines shard reports.
func Merge(shards []*Shard) *Shard {
	out := NewCollector()
	for _, s := range shards {
		if s == nil {
			continue
		}
		out.S.Evaluations += s.Evaluations
		for _, h := range s.NonTrivial {
			if _, ok := out.seen[h]; !ok {
				out.seen[h] = struct{}{}
				out.S.NonTrivial = append(out.S.NonTrivial, h)
			}
		}
		for k, v := range s.Labels {
			out.S.Labels[k] += v
		}
		for k, v := range s.Known {
			out.S.Known[k] += v
		}
		for k, v := range s.Excluded {
			out.S.Excluded[k] += v
		}
		for k, v := range s.Exhaustive {
			if prev, ok := out.S.Exhaustive[k]; ok {
				out.S.Exhaustive[k] = prev && v
			} else {
				out.S.Exhaustive[k] = v
			}
		}
		out.S.Discarded += s.Discarded
		out.S.Regress += s.Regress
		out.S.Flakes += s.Flakes
		out.S.Spawns += s.Spawns
		out.S.Infra = append(out.S.Infra, s.Infra...)
		out.S.Violations = append(out.S.Violations, s.Violations...)
		out.S.KnownLines = append(out.S.KnownLines, s.KnownLines...)
		out.S.Notes = append(out.S.Notes, s.Notes...)
		out.S.Incomplete = out.S.Incomplete || s.Incomplete
		if len(out.S.Samples) < 8 {
			for _, x := range s.Samples {
				if len(out.S.Samples) < 8 {
					out.S.Samples = append(out.S.Samples, x)
				}
			}
		}
	}
	sort.Strings(out.S.KnownLines)
	return &out.S
}

// Write writes the evidence file.
func Write(path string, e *Evidence) error {
	b, err := json.MarshalIndent(e, "", " ")
	if err != nil {
		return err
	}
	return os.WriteFile(path, append(b, '\n'), 0o644)
}
