package model

import (
	"strconv"
	"strings"
)

// Tok is one token of the printed source.
type Tok struct {
	S    string // token text
	In   bool   // lies inside {{ }} / {% %} (whitespace may be placed before it)
	Sp   string // whitespace before the token in the canonical spelling
	Kind string // "open" "close" (delimiters) "text" "comment" "word" "num" "str" "op" "punct"
	// Anchor names the AST node kind whose reported position is this token
	// ("" = none); AOff is the byte offset of the anchor inside the token,
	// AAlt an alternative acceptable offset (-1 = none).
	Anchor string
	AOff   int
	AAlt   int
	Depth  int // nesting depth of open body-carrying constructs at this token
	// BodyOpen marks the closing delimiter of a tag that opens a body,
	// BodyClose the closing delimiter of the matching end tag.
	BodyOpen  bool
	BodyClose bool
	// Cont marks the second word of a two-word operator ("in" of "not in").
	Cont bool
}

// Pos is a source position: 1-based line, 0-based byte column.
type Pos struct {
	Line, Col, Byte int
}

type printer struct {
	toks   []Tok
	in     bool
	inElse bool
	depth  int
	// fullParen: parenthesise every non-atomic operand (default). When false
	// the printer emits only the parentheses required by the operator table
	// (used by nothing yet; C04 has its own printer).
}

func (p *printer) raw(s, kind, anchor string) {
	p.toks = append(p.toks, Tok{S: s, Kind: kind, Anchor: anchor, AAlt: -1, Depth: p.depth})
}

// tok emits a token inside a delimiter pair with canonical spacing sp.
func (p *printer) tok(s, kind, sp, anchor string) *Tok {
	p.toks = append(p.toks, Tok{S: s, In: true, Sp: sp, Kind: kind, Anchor: anchor, AAlt: -1, Depth: p.depth})
	return &p.toks[len(p.toks)-1]
}

// opTok emits a binary operator. The words of "not in", "is not", "starts
// with" and "ends with" are separate tokens of the spelling: any whitespace
// may stand between them (repair of 2026-09-26; they used to need exactly
// one blank).
func (p *printer) opTok(s string) {
	for i, w := range strings.Split(s, " ") {
		p.tok(w, "op", " ", "").Cont = i > 0
	}
}

func (p *printer) open(delim string, trim bool) {
	if trim {
		delim += "-"
	}
	p.raw(delim, "open", "")
	if delim[:2] == "{{" {
		p.toks[len(p.toks)-1].Anchor = "Print"
	}
}

func (p *printer) close(delim string, trim bool) {
	if trim {
		delim = "-" + delim
	}
	p.tok(delim, "close", " ", "")
}

// tag emits "{% name" and returns so the caller can add arguments.
func (p *printer) tag(name string, n *N, anchor string) {
	p.open("{%", n != nil && n.TrimL)
	p.tok(name, "word", " ", anchor)
}

func (p *printer) endTag(n *N) { p.close("%}", n != nil && n.TrimR) }

func (p *printer) simpleTag(name string) {
	p.open("{%", false)
	p.tok(name, "word", " ", "")
	p.close("%}", false)
	if strings.HasPrefix(name, "end") && name != "endverbatim" {
		p.toks[len(p.toks)-1].BodyClose = true
	}
	if name == "else" {
		p.inElse = true
	}
}

func atomic(e *E) bool {
	switch e.K {
	case "un", "bin", "cond", "test":
		return false
	}
	return true
}

// operand prints e as an operand: parenthesised unless atomic.
func (p *printer) operand(e *E, sp string) {
	if atomic(e) {
		p.expr(e, sp)
		return
	}
	p.tok("(", "punct", sp, "")
	p.expr(e, "")
	p.tok(")", "punct", "", "")
}

func numLit(f float64) string { return strconv.FormatFloat(f, 'f', -1, 64) }

func (p *printer) str(s, q, sp, anchor string) {
	if q == "" {
		q = "'"
		if strings.Contains(s, "'") {
			q = "\""
		}
	}
	t := p.tok(q+s+q, "str", sp, anchor)
	if anchor != "" {
		// stick anchors the content, the statement says "first byte of a
		// literal": both the quote and the first content byte are accepted.
		t.AOff, t.AAlt = 1, 0
	}
}

func (p *printer) args(as []*E) {
	p.tok("(", "punct", "", "")
	for i, a := range as {
		sp := ""
		if i > 0 {
			p.tok(",", "punct", "", "")
			sp = " "
		}
		p.expr(a, sp)
	}
	p.tok(")", "punct", "", "")
}

// expr prints e; sp is the canonical whitespace before its first token.
func (p *printer) expr(e *E, sp string) {
	switch e.K {
	case "null":
		p.tok("null", "word", sp, "Null")
	case "bool":
		if e.B {
			p.tok("true", "word", sp, "Bool")
		} else {
			p.tok("false", "word", sp, "Bool")
		}
	case "num":
		p.tok(numLit(e.N), "num", sp, "Number")
	case "str":
		p.str(e.S, e.Q, sp, "String")
	case "name":
		p.tok(e.S, "word", sp, "Name")
	case "group":
		p.tok("(", "punct", sp, "")
		p.expr(e.A[0], "")
		p.tok(")", "punct", "", "")
	case "un":
		p.tok(e.S, "op", sp, "")
		osp := ""
		if e.S == "not" {
			osp = " "
		}
		p.operand(e.A[0], osp)
	case "bin":
		p.operand(e.A[0], sp)
		p.opTok(e.S)
		p.operand(e.A[1], " ")
	case "cond":
		p.operand(e.A[0], sp)
		p.tok("?", "punct", " ", "")
		p.operand(e.A[1], " ")
		p.tok(":", "punct", " ", "")
		p.operand(e.A[2], " ")
	case "arr":
		p.tok("[", "punct", sp, "")
		for i, a := range e.A {
			s := ""
			if i > 0 {
				p.tok(",", "punct", "", "")
				s = " "
			}
			p.expr(a, s)
		}
		if e.Comma && len(e.A) > 0 {
			p.tok(",", "punct", "", "")
		}
		p.tok("]", "punct", "", "")
	case "hash":
		p.tok("{", "punct", sp, "")
		for i, a := range e.A {
			s := ""
			if i > 0 {
				p.tok(",", "punct", "", "")
				s = " "
			}
			k := e.KS[i]
			switch k.K {
			case "name":
				p.tok(k.S, "word", s, "Name")
			case "num":
				p.tok(numLit(k.N), "num", s, "Number")
			case "str":
				p.str(k.S, k.Q, s, "String")
			default:
				// an expression key is written in parentheses
				if k.K == "group" {
					p.expr(k, s)
				} else {
					p.tok("(", "punct", s, "")
					p.expr(k, "")
					p.tok(")", "punct", "", "")
				}
			}
			p.tok(":", "punct", "", "")
			p.expr(a, " ")
		}
		if e.Comma && len(e.A) > 0 {
			p.tok(",", "punct", "", "")
		}
		p.tok("}", "punct", "", "")
	case "attr":
		p.operand(e.A[0], sp)
		p.tok(".", "punct", "", "")
		p.tok(e.S, "word", "", "String")
	case "idx":
		p.operand(e.A[0], sp)
		p.tok("[", "punct", "", "")
		p.expr(e.A[1], "")
		p.tok("]", "punct", "", "")
	case "call":
		p.tok(e.S, "word", sp, "Func") // a call is anchored at the function's name
		p.args(e.A)
	case "parent":
		p.tok("parent", "word", sp, "Func")
		p.args(nil)
	case "blockfn":
		p.tok("block", "word", sp, "Func")
		p.args(e.A)
	case "filter":
		p.operand(e.A[0], sp)
		p.tok("|", "punct", "", "")
		p.tok(e.S, "word", "", "FilterX") // a filter application is anchored at the filter's name, with or without arguments
		if len(e.A) > 1 {
			p.args(e.A[1:])
		}
	case "test":
		p.operand(e.A[0], sp)
		if e.B {
			p.opTok("is not")
		} else {
			p.tok("is", "op", " ", "")
		}
		// a two-word test is two name tokens
		words := strings.Split(e.S, " ")
		for i, w := range words {
			// the test is anchored at the first word of its name
			p.tok(w, "word", " ", map[bool]string{true: "Test", false: ""}[i == 0])
		}
		if len(e.A) > 1 {
			p.args(e.A[1:])
		}
	case "interp":
		// one token: interpolation parts are printed tightly
		var b strings.Builder
		b.WriteString("\"")
		sub := &printer{in: true}
		for i, part := range e.A {
			// parts alternate: literal text, expression, literal text, ...
			// (an expression that is a string literal, or any string part of
			// a hand-built node with another layout, is written as text unless
			// that would join a '#' and a '{')
			if part.K == "str" && (i%2 == 0 || len(e.A)%2 == 0 || !strings.ContainsAny(part.S, "#{")) {
				b.WriteString(part.S)
				continue
			}
			b.WriteString("#{")
			sub.toks = sub.toks[:0]
			sub.expr(part, "")
			s, _ := Join(sub.toks, nil)
			// a brace next to the interpolation's own braces would read as a
			// print delimiter
			if strings.HasPrefix(s, "{") {
				s = " " + s
			}
			if strings.HasSuffix(s, "}") {
				s += " "
			}
			b.WriteString(s)
			b.WriteString("}")
		}
		b.WriteString("\"")
		p.tok(b.String(), "str", sp, "")
	case "mcallx":
		p.operand(e.A[0], sp)
		p.tok(".", "punct", "", "")
		p.tok(e.S, "word", "", "String")
		p.args(e.A[1:])
	case "mcall":
		switch e.T {
		case "self":
			p.tok("_self", "word", sp, "Name")
			p.tok(".", "punct", "", "")
			p.tok(e.S, "word", "", "String")
		case "alias":
			p.tok(e.U, "word", sp, "Name")
			p.tok(".", "punct", "", "")
			p.tok(e.S, "word", "", "String")
		default: // from-import: local name U
			p.tok(e.U, "word", sp, "Func")
		}
		p.args(e.A)
	default:
		panic("model: unknown expression kind " + e.K)
	}
}

func (p *printer) body(ns []*N) {
	if len(p.toks) > 0 && p.toks[len(p.toks)-1].Kind == "close" && !p.inElse {
		p.toks[len(p.toks)-1].BodyOpen = true
	}
	p.inElse = false
	p.depth++
	for _, n := range ns {
		p.node(n)
	}
	p.depth--
}

func (p *printer) includeArgs(n *N) {
	p.expr(n.X, " ")
	if n.Y != nil {
		p.tok("with", "word", " ", "")
		p.expr(n.Y, " ")
	}
	if n.Only {
		p.tok("only", "word", " ", "")
	}
}

func (p *printer) node(n *N) {
	switch n.K {
	case "text":
		if n.S != "" {
			p.raw(n.S, "text", "Text")
		}
	case "comment":
		p.raw("{#"+n.S+"#}", "comment", "")
	case "print":
		p.open("{{", n.TrimL)
		p.expr(n.X, " ")
		p.close("}}", n.TrimR)
	case "verbatim":
		p.open("{%", n.TrimL)
		p.tok("verbatim", "word", " ", "")
		ws := func(c byte) bool { return c == ' ' || c == '\t' || c == '\n' || c == '\r' }
		inner := n.TrimI && n.S != "" && !ws(n.S[0]) && !ws(n.S[len(n.S)-1])
		p.close("%}", inner)
		p.raw(n.S, "text", "")
		p.open("{%", inner)
		p.tok("endverbatim", "word", " ", "")
		p.close("%}", n.TrimR)
	case "if":
		p.tag("if", n, "If")
		p.expr(n.X, " ")
		p.endTag(n)
		p.body(n.Body)
		for _, el := range n.Elifs {
			p.tag("elseif", nil, "If")
			p.expr(el.Cond, " ")
			p.endTag(nil)
			p.inElse = true
			p.body(el.Body)
		}
		if n.HasElse {
			p.simpleTag("else")
			p.body(n.Else)
		}
		p.simpleTag("endif")
	case "for":
		p.tag("for", n, "For")
		if n.T != "" {
			p.tok(n.T, "word", " ", "")
			p.tok(",", "punct", "", "")
		}
		p.tok(n.S, "word", " ", "")
		p.tok("in", "op", " ", "")
		p.expr(n.X, " ")
		if n.Y != nil {
			p.tok("if", "word", " ", "If") // the inline condition is an if node anchored at its keyword
			p.expr(n.Y, " ")
		}
		p.endTag(n)
		p.body(n.Body)
		if n.HasElse {
			p.simpleTag("else")
			p.body(n.Else)
		}
		p.simpleTag("endfor")
	case "set":
		p.tag("set", n, "Set")
		p.tok(n.S, "word", " ", "")
		p.tok("=", "punct", " ", "")
		p.expr(n.X, " ")
		p.endTag(n)
	case "setcap":
		p.tag("set", n, "Set")
		p.tok(n.S, "word", " ", "")
		p.endTag(n)
		p.body(n.Body)
		p.simpleTag("endset")
	case "do":
		p.tag("do", n, "Do")
		p.expr(n.X, " ")
		p.endTag(n)
	case "filter":
		p.tag("filter", n, "Filter")
		for i, f := range n.Names {
			if i > 0 {
				p.tok("|", "punct", "", "")
				p.tok(f, "word", "", "")
			} else {
				p.tok(f, "word", " ", "")
			}
		}
		p.endTag(n)
		p.body(n.Body)
		p.simpleTag("endfilter")
	case "block":
		p.tag("block", n, "Block")
		p.tok(n.S, "word", " ", "")
		p.endTag(n)
		p.body(n.Body)
		p.simpleTag("endblock")
	case "extends":
		p.tag("extends", n, "Extends")
		p.expr(n.X, " ")
		p.endTag(n)
	case "use":
		p.tag("use", n, "Use")
		p.expr(n.X, " ")
		for i, pr := range n.Pairs {
			if i == 0 {
				p.tok("with", "word", " ", "")
			} else {
				p.tok(",", "punct", "", "")
			}
			p.tok(pr[0], "word", " ", "")
			p.tok("as", "word", " ", "")
			p.tok(pr[1], "word", " ", "")
		}
		p.endTag(n)
	case "include":
		p.tag("include", n, "Include")
		p.includeArgs(n)
		p.endTag(n)
	case "embed":
		p.tag("embed", n, "Embed")
		p.includeArgs(n)
		p.endTag(n)
		p.toks[len(p.toks)-1].BodyOpen = true
		p.depth++
		for _, b := range n.Blocks {
			p.node(b)
		}
		p.depth--
		p.simpleTag("endembed")
	case "macro":
		p.tag("macro", n, "Macro")
		p.tok(n.S, "word", " ", "")
		p.tok("(", "punct", "", "")
		for i, a := range n.Names {
			s := ""
			if i > 0 {
				p.tok(",", "punct", "", "")
				s = " "
			}
			p.tok(a, "word", s, "")
		}
		p.tok(")", "punct", "", "")
		p.endTag(n)
		p.body(n.Body)
		p.simpleTag("endmacro")
	case "import":
		p.tag("import", n, "Import")
		p.expr(n.X, " ")
		p.tok("as", "word", " ", "")
		p.tok(n.S, "word", " ", "")
		p.endTag(n)
	case "from":
		p.tag("from", n, "From")
		p.expr(n.X, " ")
		p.tok("import", "word", " ", "")
		for i, pr := range n.Pairs {
			s := " "
			if i > 0 {
				p.tok(",", "punct", "", "")
			}
			p.tok(pr[0], "word", s, "")
			if pr[1] != pr[0] {
				p.tok("as", "word", " ", "")
				p.tok(pr[1], "word", " ", "")
			}
		}
		p.endTag(n)
	default:
		panic("model: unknown node kind " + n.K)
	}
}

// Tokens prints a template body into tokens.
func Tokens(body []*N) []Tok {
	p := &printer{}
	for _, n := range body {
		p.node(n)
	}
	return p.toks
}

// ExprTokens prints a single expression.
func ExprTokens(e *E) []Tok {
	p := &printer{}
	p.expr(e, "")
	return p.toks
}

// Spelling chooses the whitespace before token i (which lies inside a
// delimiter pair); canon is the canonical choice, must reports whether some
// whitespace is required for the tokens not to fuse.
type Spelling func(i int, canon string, must bool) string

// MustSep reports whether two adjacent tokens inside delimiters need
// whitespace between them so that they cannot merge into something else. It is
// deliberately conservative.
func MustSep(a, b Tok) bool {
	if a.S == "" || b.S == "" {
		return false
	}
	la, fb := a.S[len(a.S)-1], b.S[0]
	word := func(c byte) bool {
		return c == '_' || (c >= '0' && c <= '9') || (c >= 'a' && c <= 'z') || (c >= 'A' && c <= 'Z') || c >= 0x80
	}
	if word(la) && word(fb) {
		return true
	}
	// an alphabetic operator next to a digit/word is covered above; numbers and dots
	if (la >= '0' && la <= '9' && fb == '.') || (la == '.' && fb >= '0' && fb <= '9') {
		return a.Kind == "num" || b.Kind == "num"
	}
	opc := func(c byte) bool { return strings.IndexByte("<>=!*/.-+~%", c) >= 0 }
	if opc(la) && opc(fb) {
		return true
	}
	// delimiters: '-' after an opening delimiter or before a closing one is a
	// trim marker; '{' '}' '%' '#' next to delimiters form other delimiters.
	if a.Kind == "open" && (fb == '-' || fb == '{' || fb == '%' || fb == '#') {
		return true
	}
	// ('}' directly before "}}" is fine: inside a hash literal the lexer reads
	// closing braces as hash closes)
	if b.Kind == "close" && (la == '-' || la == '%' || la == '#' || la == '{') {
		return true
	}
	if la == '#' && fb == '{' || la == '{' && (fb == '{' || fb == '%' || fb == '#') {
		return true
	}
	return false
}

// Join concatenates tokens under a spelling (nil = canonical) and returns the
// source and the position of every token.
func Join(toks []Tok, sp Spelling) (string, []Pos) {
	var b strings.Builder
	pos := make([]Pos, len(toks))
	line, col := 1, 0
	write := func(s string) {
		b.WriteString(s)
		if n := strings.Count(s, "\n"); n > 0 {
			line += n
			col = len(s) - strings.LastIndexByte(s, '\n') - 1
		} else {
			col += len(s)
		}
	}
	for i, t := range toks {
		if t.In && i > 0 {
			must := MustSep(toks[i-1], t)
			ws := t.Sp
			if sp != nil {
				ws = sp(i, t.Sp, must)
			}
			if must && ws == "" {
				ws = " "
			}
			write(ws)
		}
		pos[i] = Pos{Line: line, Col: col, Byte: b.Len()}
		write(t.S)
	}
	return b.String(), pos
}

// Source prints a template in the canonical spelling.
func Source(body []*N) string {
	s, _ := Join(Tokens(body), nil)
	return s
}

// ExprSource prints one expression in the canonical spelling.
func ExprSource(e *E) string {
	s, _ := Join(ExprTokens(e), nil)
	return s
}

// Sources prints all templates of a program.
func (p *Program) Sources() map[string]string {
	out := make(map[string]string, len(p.Tpls))
	for _, t := range p.Tpls {
		out[t.Name] = Source(t.Body)
	}
	return out
}
