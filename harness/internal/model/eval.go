package model

import (
	"math"
	"regexp"
	"strings"

	"verif/internal/sb"
)

// KMacros is the kind of the value bound by {% import ... as alias %}.
const KMacros Kind = 100

// Result is the model's prediction for a program.
type Result struct {
	Status string // ok | error | discard
	Why    string
	Out    string
	Calls  []sb.CallRec
	Feat   map[string]int // features exercised (drives labels / non-triviality)
	// Writes lists, for C08/C17, every chunk the main writer receives in order.
	Writes []string
}

type blockDef struct {
	n      *N
	origin string
}

type macroDef struct {
	n      *N
	origin string
}

type scope struct {
	vars     map[string]Val
	loop     bool            // a for-iteration frame
	filtered bool            // iteration of a for ... if
	macro    bool            // a macro-call frame
	prevSets map[string]bool // names first set in earlier iterations of this loop
}

type curBlock struct {
	name string
	pos  int
}

type writer struct {
	b      strings.Builder
	main   bool
	writes *[]string
}

func (w *writer) write(s string) {
	if w.b.Len()+len(s) > 4*MaxStr {
		leave("string too long")
	}
	w.b.WriteString(s)
	if w.main && w.writes != nil {
		*w.writes = append(*w.writes, s)
	}
}

// shared is common to all template executions of one run.
type shared struct {
	p      *Program
	calls  []sb.CallRec
	feat   map[string]int
	writes []string
	steps  int
}

// ev is the state of one template execution (one per Execute / include).
type ev struct {
	sh          *shared
	out         *writer
	name        string
	scopes      []*scope
	chain       []map[string]*blockDef
	cur         *curBlock
	localMacros map[string]*macroDef
	fromMacros  map[string]*macroDef
	depth       int
	outside     bool // executing control flow at the top level of an extending template
}

// Eval runs the reference evaluator on a program.
func Eval(p *Program) (res *Result) {
	sh := &shared{p: p, feat: map[string]int{}}
	main := &writer{main: true, writes: &sh.writes}
	res = &Result{Status: "ok", Feat: sh.feat}
	defer func() {
		res.Out = main.b.String()
		res.Calls = sh.calls
		res.Writes = sh.writes
		if r := recover(); r != nil {
			switch x := r.(type) {
			case discard:
				res.Status, res.Why = "discard", x.why
			case evalError:
				res.Status, res.Why = "error", x.why
			default:
				panic(r)
			}
		}
	}()
	ctx := map[string]Val{}
	for _, c := range p.Ctx {
		ctx[c.Name] = c.V
	}
	sh.execute(p.Entry, main, ctx, 0)
	return res
}

func (sh *shared) feature(f string) { sh.feat[f]++ }

func (sh *shared) tick() {
	sh.steps++
	if sh.steps > 200000 && !(sh.p.Large && sh.steps <= 20000000) {
		leave("step budget exceeded")
	}
}

// execute renders a named template with a fresh state (Execute / include).
func (sh *shared) execute(name string, out *writer, ctx map[string]Val, depth int) {
	t := sh.p.Tpl(name)
	if t == nil {
		fail("template not found: " + name)
	}
	if depth > 12 && !(sh.p.Large && depth <= 500) {
		leave("include depth")
	}
	e := &ev{sh: sh, out: out, name: name, scopes: []*scope{{vars: ctx}},
		localMacros: map[string]*macroDef{}, fromMacros: map[string]*macroDef{}, depth: depth}
	e.chain = []map[string]*blockDef{collectBlocks(t)}
	e.runTpl(t)
}

// collectBlocks returns every block defined in a template (nested included;
// blocks inside embed bodies belong to the embed, not the template).
func collectBlocks(t *Tpl) map[string]*blockDef {
	m := map[string]*blockDef{}
	var rec func(ns []*N)
	rec = func(ns []*N) {
		for _, n := range ns {
			if n.K == "block" {
				m[n.S] = &blockDef{n: n, origin: t.Name}
			}
			rec(n.Body)
			for _, el := range n.Elifs {
				rec(el.Body)
			}
			rec(n.Else)
		}
	}
	rec(t.Body)
	return m
}

func findExtends(t *Tpl) *N {
	for _, n := range t.Body {
		if n.K == "extends" {
			return n
		}
	}
	return nil
}

// runTpl renders template t in the current state; an extending template hands
// over to its parent after registering its used blocks.
func (e *ev) runTpl(t *Tpl) {
	// macros are definitions of the template, wherever they are written at its
	// top level: a call may precede the definition
	for _, n := range t.Body {
		if n.K == "macro" {
			e.localMacros[n.S] = &macroDef{n: n, origin: t.Name}
		}
	}
	ext := findExtends(t)
	if ext == nil {
		e.run(t.Body)
		return
	}
	e.sh.feature("extends")
	pname := ToStr(e.expr(ext.X))
	pt := e.sh.p.Tpl(pname)
	if pt == nil {
		fail("parent template not found: " + pname)
	}
	if len(e.chain) > 20 && !(e.sh.p.Large && len(e.chain) <= 500) {
		leave("inheritance depth")
	}
	e.chain = append(e.chain, collectBlocks(pt))
	// In the body of an extending template `use` is processed, and macro
	// definitions and imports take effect (its blocks may call them); nothing
	// is rendered.
	for _, n := range t.Body {
		switch n.K {
		case "use":
			e.use(n, true)
		case "macro", "import", "from", "set", "setcap":
			e.node(n)
		case "if", "for", "do":
			// executed for their assignments and callbacks; what they would
			// print is not rendered
			e.outside = true
			e.capture(func() { e.node(n) })
			e.outside = false
		}
	}
	prev := e.name
	e.name = pname
	e.runTpl(pt)
	e.name = prev
}

// use imports the blocks of another template just below the importing
// template's own blocks (and above its ancestors').
func (e *ev) use(n *N, extending bool) {
	e.sh.feature("use")
	uname := ToStr(e.expr(n.X))
	ut := e.sh.p.Tpl(uname)
	if ut == nil {
		fail("used template not found: " + uname)
	}
	defined := collectBlocks(ut)
	blocks := map[string]*blockDef{}
	aliased := map[string]bool{}
	for _, pr := range n.Pairs {
		aliased[pr[0]] = true
	}
	for name, b := range defined {
		if !aliased[name] {
			blocks[name] = b
		}
	}
	for _, pr := range n.Pairs {
		b, ok := defined[pr[0]]
		if !ok {
			fail("use: no block " + pr[0])
		}
		// the block is imported under its alias only (which may be its own
		// name, or the name of another block that is given an alias too)
		blocks[pr[1]] = b
	}
	l := len(e.chain)
	if !extending {
		// a template that extends nothing ranks what it uses below its own
		// blocks: at the very end of the chain
		e.sh.feature("use-without-extends")
		e.chain = append(e.chain[:l:l], blocks)
		return
	}
	if l < 2 {
		leave("use in a template that does not extend")
	}
	last := e.chain[l-1]
	e.chain = append(append(e.chain[:l-1:l-1], blocks), last)
}

func (e *ev) resolve(name string) (*blockDef, int) {
	for i, m := range e.chain {
		if b, ok := m[name]; ok {
			return b, i
		}
	}
	return nil, -1
}

func (e *ev) resolveAfter(name string, pos int) (*blockDef, int) {
	for i := pos + 1; i < len(e.chain); i++ {
		if b, ok := e.chain[i][name]; ok {
			return b, i
		}
	}
	return nil, -1
}

// renderBlock runs a block definition with the bookkeeping for parent() and
// for callbacks (current template = the defining one).
func (e *ev) renderBlock(b *blockDef, name string, pos int) {
	e.depth++
	if e.depth > 40 {
		leave("block recursion")
	}
	prevCur, prevName, prevOutside := e.cur, e.name, e.outside
	e.cur = &curBlock{name: name, pos: pos}
	e.name = b.origin
	e.outside = false // a block rendered by block() or parent() renders the blocks nested in it
	e.run(b.n.Body)
	e.cur, e.name, e.outside = prevCur, prevName, prevOutside
	e.depth--
}

// capture runs f with output redirected and returns what it produced.
func (e *ev) capture(f func()) string {
	prev := e.out
	w := &writer{}
	e.out = w
	defer func() { e.out = prev }()
	f()
	return w.b.String()
}

func (e *ev) top() *scope { return e.scopes[len(e.scopes)-1] }

func (e *ev) get(name string) (Val, bool) {
	for i := len(e.scopes) - 1; i >= 0; i-- {
		s := e.scopes[i]
		if v, ok := s.vars[name]; ok {
			if name == "loop" && s.filtered {
				leave("loop metadata inside for ... if")
			}
			return v, true
		}
	}
	// Unbound: if an enclosing loop set it in an earlier iteration the
	// language and stick disagree (stick scopes per iteration).
	for i := len(e.scopes) - 1; i >= 0; i-- {
		if e.scopes[i].prevSets[name] {
			leave("variable set in an earlier iteration read in a later one")
		}
	}
	return Null(), false
}

func (e *ev) set(name string, v Val) {
	var bound []int
	for i, s := range e.scopes {
		if _, ok := s.vars[name]; ok {
			bound = append(bound, i)
		}
	}
	// innermost macro frame
	mf := -1
	for i := len(e.scopes) - 1; i >= 0; i-- {
		if e.scopes[i].macro {
			mf = i
			break
		}
	}
	switch {
	case len(bound) >= 2:
		leave("set of a shadowed name")
	case len(bound) == 1:
		if mf >= 0 && bound[0] < mf {
			leave("set inside a macro of a name bound outside it")
		}
		sc := e.scopes[bound[0]]
		if sc.loop && bound[0] == len(e.scopes)-1 {
			// assigning the loop's own key/value/loop variable
			if _, isLocal := sc.vars[name]; isLocal && sc.prevSets != nil && !sc.prevSets["\x00set:"+name] {
				// fine: either a loop variable or set earlier in this iteration
			}
		}
		sc.vars[name] = v
		e.sh.feature("set-update")
	default:
		e.top().vars[name] = v
		if e.top().loop {
			e.top().prevSets["\x00cur:"+name] = true
		}
		e.sh.feature("set-new")
	}
}

func (e *ev) call(name string, args []Val) {
	rec := sb.CallRec{Name: name, Tpl: e.name, Args: make([]string, len(args))}
	for i, a := range args {
		rec.Args[i] = Repr(a)
	}
	e.sh.calls = append(e.sh.calls, rec)
}

// ---- statements -----------------------------------------------------------

func (e *ev) run(ns []*N) {
	for _, n := range ns {
		e.node(n)
	}
}

func (e *ev) node(n *N) {
	e.sh.tick()
	switch n.K {
	case "text":
		if n.S != "" {
			e.out.write(n.S)
		}
	case "verbatim":
		e.sh.feature("verbatim")
		e.out.write(n.S)
	case "comment":
		e.sh.feature("comment")
	case "print":
		e.out.write(ToStr(e.expr(n.X)))
	case "do":
		e.expr(n.X)
	case "if":
		if Truthy(e.expr(n.X)) {
			e.sh.feature("if-then")
			e.run(n.Body)
			return
		}
		for i, el := range n.Elifs {
			if Truthy(e.expr(el.Cond)) {
				e.sh.feature("if-elseif")
				if i > 0 {
					e.sh.feature("if-elseif-later")
				}
				e.run(el.Body)
				return
			}
		}
		if n.HasElse {
			e.sh.feature("if-else")
			e.run(n.Else)
		}
	case "for":
		e.forLoop(n)
	case "set":
		e.set(n.S, e.expr(n.X))
	case "setcap":
		e.sh.feature("setcap")
		outside := e.outside
		e.outside = false // a capture renders the blocks written inside it
		s := e.capture(func() { e.run(n.Body) })
		e.outside = outside
		e.set(n.S, Str(s))
	case "filter":
		e.sh.feature("filter-section")
		s := e.capture(func() { e.run(n.Body) })
		v := Str(s)
		for _, f := range n.Names {
			v = e.applyFilter(f, []Val{v})
		}
		e.out.write(ToStr(v))
	case "block":
		if e.outside {
			// under control flow at the top level of an extending template a
			// block is defined, not rendered
			e.sh.feature("block-under-toplevel-control-flow")
			return
		}
		b, pos := e.resolve(n.S)
		if b == nil {
			fail("block not found: " + n.S)
		}
		if pos > 0 {
			e.sh.feature("block-overridden")
		}
		e.renderBlock(b, n.S, pos)
	case "extends":
		// handled by runTpl; a second extends is a parse error the generator never produces
	case "use":
		e.use(n, false)
	case "macro":
		e.localMacros[n.S] = &macroDef{n: n, origin: e.name}
	case "import":
		tname := e.tplName(n.X)
		if e.sh.p.Tpl(tname) == nil {
			fail("import: template not found: " + tname)
		}
		e.set(n.S, Val{K: KMacros, S: tname})
	case "from":
		tname := e.tplName(n.X)
		t := e.sh.p.Tpl(tname)
		if t == nil {
			fail("from: template not found: " + tname)
		}
		ms := collectMacros(t)
		for _, pr := range n.Pairs {
			m, ok := ms[pr[0]]
			if !ok {
				fail("from: undefined macro " + pr[0])
			}
			e.fromMacros[pr[1]] = m
		}
	case "include":
		e.sh.feature("include")
		name, ctx := e.includeCtx(n)
		e.sh.execute(name, e.out, ctx, e.depth+1)
	case "embed":
		e.sh.feature("embed")
		name, ctx := e.includeCtx(n)
		t := e.sh.p.Tpl(name)
		if t == nil {
			fail("embed: template not found: " + name)
		}
		over := map[string]*blockDef{}
		for _, b := range n.Blocks {
			over[b.S] = &blockDef{n: b, origin: e.name}
			// nested blocks of an override belong to the embed's block set too
			for k, v := range collectBlocks(&Tpl{Name: e.name, Body: b.Body}) {
				over[k] = v
			}
		}
		si := &ev{sh: e.sh, out: e.out, name: name, scopes: []*scope{{vars: ctx}},
			localMacros: map[string]*macroDef{}, fromMacros: map[string]*macroDef{}, depth: e.depth + 1}
		si.chain = []map[string]*blockDef{over, collectBlocks(t)}
		si.runTpl(t)
	default:
		panic("model: unknown node kind " + n.K)
	}
}

// tplName evaluates the template expression of an import / from tag; _self
// names the running template.
func (e *ev) tplName(x *E) string {
	if x.K == "name" && x.S == "_self" {
		return e.name
	}
	return ToStr(e.expr(x))
}

func collectMacros(t *Tpl) map[string]*macroDef {
	m := map[string]*macroDef{}
	Walk(t.Body, func(n *N, _ int) {
		if n.K == "macro" {
			m[n.S] = &macroDef{n: n, origin: t.Name}
		}
	})
	return m
}

func (e *ev) includeCtx(n *N) (string, map[string]Val) {
	name := ToStr(e.expr(n.X))
	var with Val
	hasWith := false
	if n.Y != nil {
		with = e.expr(n.Y)
		hasWith = true
	}
	ctx := map[string]Val{}
	if !n.Only {
		for _, s := range e.scopes {
			for k, v := range s.vars {
				ctx[k] = v
			}
		}
	} else {
		e.sh.feature("only")
	}
	if hasWith {
		if with.K != KHash {
			leave("include ... with a non-hash")
		}
		e.sh.feature("with")
		for i, k := range with.Keys {
			ctx[k] = with.A[i]
		}
	}
	return name, ctx
}

func (e *ev) forLoop(n *N) {
	seq := e.expr(n.X)
	var keys, vals []Val
	switch seq.K {
	case KNull:
	case KArr:
		for i, v := range seq.A {
			keys = append(keys, Num(float64(i)))
			vals = append(vals, v)
		}
	case KHash:
		if len(seq.A) > 1 {
			leave("iteration order of a hash with several entries")
		}
		for i, v := range seq.A {
			keys = append(keys, Str(seq.Keys[i]))
			vals = append(vals, v)
		}
	default:
		fail("for over a non-iterable value")
	}
	ln := len(vals)
	if ln == 0 {
		e.sh.feature("for-empty")
		if n.HasElse {
			e.sh.feature("for-else")
			e.run(n.Else)
		}
		return
	}
	if ln >= 2 {
		e.sh.feature("for-multi")
	}
	parent, hasParent := e.get("loop")
	prevSets := map[string]bool{}
	for i := 0; i < ln; i++ {
		sc := &scope{vars: map[string]Val{}, loop: true, prevSets: prevSets, filtered: n.Y != nil}
		e.scopes = append(e.scopes, sc)
		if n.T != "" {
			sc.vars[n.T] = keys[i]
		}
		sc.vars[n.S] = vals[i]
		loop := Val{K: KHash}
		loop.HashSet("index", Num(float64(i+1)))
		loop.HashSet("index0", Num(float64(i)))
		loop.HashSet("revindex", Num(float64(ln-i)))
		loop.HashSet("revindex0", Num(float64(ln-i-1)))
		loop.HashSet("first", Bool(i == 0))
		loop.HashSet("last", Bool(i == ln-1))
		loop.HashSet("length", Num(float64(ln)))
		if hasParent {
			loop.HashSet("parent", parent)
		}
		sc.vars["loop"] = loop
		func() {
			defer func() {
				e.scopes = e.scopes[:len(e.scopes)-1]
			}()
			if n.Y != nil {
				sc.filtered = false // the condition itself may not use loop either; keep simple: allow
				sc.filtered = true
				if !Truthy(e.expr(n.Y)) {
					e.sh.feature("for-if-rejected")
					return
				}
				e.sh.feature("for-if-accepted")
			}
			e.run(n.Body)
		}()
		// names first set in this iteration are gone now
		for k := range prevSets {
			if strings.HasPrefix(k, "\x00cur:") {
				prevSets[strings.TrimPrefix(k, "\x00cur:")] = true
				delete(prevSets, k)
			}
		}
	}
}

// ---- macros ----------------------------------------------------------------

func (e *ev) callMacro(m *macroDef, args []Val) Val {
	e.sh.feature("macro-call")
	e.depth++
	if e.depth > 40 {
		leave("macro recursion")
	}
	defer func() { e.depth-- }()
	sc := &scope{vars: map[string]Val{}, macro: true}
	for i, p := range m.n.Names {
		if i < len(args) {
			sc.vars[p] = args[i]
		} else {
			sc.vars[p] = Null()
			e.sh.feature("macro-missing-arg")
		}
	}
	if len(args) > len(m.n.Names) {
		e.sh.feature("macro-surplus-arg")
	}
	e.scopes = append(e.scopes, sc)
	prevName := e.name
	e.name = m.origin
	defer func() {
		e.scopes = e.scopes[:len(e.scopes)-1]
		e.name = prevName
	}()
	outside := e.outside
	e.outside = false
	defer func() { e.outside = outside }()
	s := e.capture(func() { e.run(m.n.Body) })
	return Str(s)
}

// numberLike reports whether a string could be read as a number by some
// convention (leading blanks, sign, digit, point, or "inf"/"nan" words).
func numberLike(s string) bool {
	t := strings.ToLower(strings.TrimSpace(s))
	if t == "" {
		return s != ""
	}
	if strings.ContainsAny(t[:1], "0123456789+-.") {
		return true
	}
	return strings.HasPrefix(t, "inf") || strings.HasPrefix(t, "nan")
}

// ---- expressions ----------------------------------------------------------

var safePatterns = map[string]*regexp.Regexp{}

func intOf(v Val, what string) int64 {
	f := ToNum(v)
	if f != math.Trunc(f) || math.Abs(f) > 1e9 {
		leave(what + " on a non-integer")
	}
	return int64(f)
}

func checkNum(f float64) Val {
	if math.IsNaN(f) || math.IsInf(f, 0) {
		leave("non-finite number")
	}
	if f == 0 && math.Signbit(f) {
		leave("negative zero")
	}
	return Num(f)
}

func (e *ev) exprs(as []*E) []Val {
	out := make([]Val, len(as))
	for i, a := range as {
		out[i] = e.expr(a)
	}
	return out
}

func (e *ev) expr(x *E) Val {
	e.sh.tick()
	switch x.K {
	case "null":
		return Null()
	case "bool":
		return Bool(x.B)
	case "num":
		return Num(x.N)
	case "str":
		return Str(x.S)
	case "name":
		v, _ := e.get(x.S)
		return v
	case "group":
		return e.expr(x.A[0])
	case "un":
		v := e.expr(x.A[0])
		switch x.S {
		case "not":
			return Bool(!Truthy(v))
		case "-":
			return checkNum(-ToNum(v))
		case "+":
			return checkNum(ToNum(v))
		}
		panic("model: unknown unary " + x.S)
	case "bin":
		return e.binary(x)
	case "cond":
		if Truthy(e.expr(x.A[0])) {
			return e.expr(x.A[1])
		}
		return e.expr(x.A[2])
	case "arr":
		return Val{K: KArr, A: e.exprs(x.A)}
	case "hash":
		h := Val{K: KHash}
		for i, k := range x.KS {
			var key string
			switch k.K {
			case "name":
				key = k.S
			default:
				key = ToStr(e.expr(k))
			}
			h.HashSet(key, e.expr(x.A[i]))
		}
		return h
	case "attr":
		c := e.expr(x.A[0])
		return e.getAttr(c, Str(x.S))
	case "idx":
		c := e.expr(x.A[0])
		k := e.expr(x.A[1])
		return e.getAttr(c, k)
	case "interp":
		var b strings.Builder
		for _, part := range x.A {
			b.WriteString(ToStr(e.expr(part)))
		}
		return Str(b.String())
	case "call":
		return e.callFunc(x)
	case "filter":
		args := e.exprs(x.A)
		return e.applyFilter(x.S, args)
	case "test":
		subj := e.expr(x.A[0])
		args := e.exprs(x.A[1:])
		r := e.applyTest(x.S, subj, args)
		if x.B {
			r = !r
		}
		return Bool(r)
	case "parent":
		if e.cur == nil {
			fail("parent() outside a block")
		}
		b, pos := e.resolveAfter(e.cur.name, e.cur.pos)
		if b == nil {
			fail("parent(): no ancestor defines block " + e.cur.name)
		}
		e.sh.feature("parent()")
		if pos < len(e.chain)-1 {
			e.sh.feature("parent()-mid-chain")
		}
		name := e.cur.name
		return Str(e.capture(func() { e.renderBlock(b, name, pos) }))
	case "blockfn":
		name := ToStr(e.expr(x.A[0]))
		b, pos := e.resolve(name)
		if b == nil {
			fail("block(): no block " + name)
		}
		e.sh.feature("block()")
		return Str(e.capture(func() { e.renderBlock(b, name, pos) }))
	case "mcall":
		return e.macroCall(x)
	}
	panic("model: unknown expression kind " + x.K)
}

func (e *ev) macroCall(x *E) Val {
	switch x.T {
	case "self":
		args := e.exprs(x.A)
		m, ok := e.localMacros[x.S]
		if !ok {
			leave("_self macro not (yet) defined in the running template")
		}
		e.sh.feature("mcall-self")
		return e.callMacro(m, args)
	case "alias":
		set, _ := e.get(x.U)
		args := e.exprs(x.A)
		if set.K != KMacros {
			leave("macro alias is not an imported set")
		}
		t := e.sh.p.Tpl(set.S)
		m, ok := collectMacros(t)[x.S]
		if !ok {
			fail("undefined macro " + x.S + " in imported set")
		}
		e.sh.feature("mcall-alias")
		return e.callMacro(m, args)
	default:
		m, ok := e.fromMacros[x.U]
		if !ok {
			leave("from-imported macro not bound")
		}
		args := e.exprs(x.A)
		e.sh.feature("mcall-from")
		return e.callMacro(m, args)
	}
}

func (e *ev) getAttr(c, k Val) Val {
	switch c.K {
	case KHash:
		if k.K != KStr {
			leave("hash access with a non-string key")
		}
		v, _ := c.HashGet(k.S)
		return v
	case KArr:
		var f float64
		switch k.K {
		case KNum:
			f = k.N
		case KStr:
			if !isDecimalNumeral(k.S) {
				leave("array access with a non-numeric string")
			}
			f = ToNum(k)
		default:
			leave("array access with a non-numeric key")
		}
		if f != math.Trunc(f) {
			leave("array access with a fractional index")
		}
		if f < 0 || int(f) >= len(c.A) {
			return Null()
		}
		return c.A[int(f)]
	case KMacros:
		leave("attribute of a macro set")
	}
	return Null()
}

func (e *ev) binary(x *E) Val {
	op := x.S
	if op == "and" || op == "or" {
		// and / or short-circuit: when the left operand decides, the right one
		// is not evaluated (no callback runs, no error is raised)
		l := e.expr(x.A[0])
		lt := Truthy(l)
		if (op == "and" && !lt) || (op == "or" && lt) {
			e.sh.feature("short-circuit")
			return Bool(lt)
		}
		return Bool(Truthy(e.expr(x.A[1])))
	}
	l := e.expr(x.A[0])
	r := e.expr(x.A[1])
	switch op {
	case "+":
		return checkNum(ToNum(l) + ToNum(r))
	case "-":
		return checkNum(ToNum(l) - ToNum(r))
	case "*":
		return checkNum(ToNum(l) * ToNum(r))
	case "/":
		d := ToNum(r)
		if d == 0 {
			leave("division by zero")
		}
		return checkNum(ToNum(l) / d)
	case "//":
		d := ToNum(r)
		if d == 0 {
			leave("division by zero")
		}
		return checkNum(math.Floor(ToNum(l) / d))
	case "%":
		a, b := intOf(l, "%"), intOf(r, "%")
		if b == 0 {
			leave("modulo by zero")
		}
		return checkNum(float64(a % b))
	case "**":
		return checkNum(math.Pow(ToNum(l), ToNum(r)))
	case "~":
		return Str(ToStr(l) + ToStr(r))
	case "==":
		return Bool(LooseEq(l, r))
	case "!=":
		return Bool(!LooseEq(l, r))
	case "<", "<=", ">", ">=":
		if l.K == KStr && r.K == KStr {
			// two strings that do not spell numbers are ordered as strings,
			// byte by byte ('apple' < 'banana'); anything number-like is
			// outside the region
			if numberLike(l.S) || numberLike(r.S) {
				leave("ordering comparison on number-like strings")
			}
			e.sh.feature("string-ordering")
			switch op {
			case "<":
				return Bool(l.S < r.S)
			case "<=":
				return Bool(l.S <= r.S)
			case ">":
				return Bool(l.S > r.S)
			}
			return Bool(l.S >= r.S)
		}
		if l.K != KNum || r.K != KNum {
			leave("ordering comparison on non-numbers")
		}
		switch op {
		case "<":
			return Bool(l.N < r.N)
		case "<=":
			return Bool(l.N <= r.N)
		case ">":
			return Bool(l.N > r.N)
		}
		return Bool(l.N >= r.N)
	case "in", "not in":
		found := false
		switch r.K {
		case KNull:
		case KArr, KHash:
			for _, el := range r.A {
				if el.K != l.K {
					if (l.K == KStr && el.K == KNum && plainWord(l.S)) || (l.K == KNum && el.K == KStr && plainWord(el.S)) {
						continue // a non-numeric word never equals a number
					}
					leave("in: element kind differs from needle kind")
				}
				if LooseEq(el, l) {
					found = true
				}
			}
		case KStr:
			// membership in a string is the substring test
			// (only a string or a number can be part of a string: null, a
			// boolean, a list or a hash is not, although each of them
			// coerces to the empty string)
			switch l.K {
			case KStr:
				found = strings.Contains(r.S, l.S)
			case KNum:
				found = strings.Contains(r.S, numStr(l.N))
			default:
				e.sh.feature("in-string:needle-not-a-string")
				found = false
			}
		default:
			leave("in: haystack is not an array")
		}
		if op == "not in" {
			found = !found
		}
		return Bool(found)
	case "starts with", "ends with":
		if l.K == KNum || r.K == KNum {
			leave(op + " on numbers")
		}
		if l.K != KStr || r.K != KStr {
			// only a string starts or ends with a string: null, a boolean, a
			// list or a hash coerce to the empty string but are not the
			// beginning of every string
			e.sh.feature("strtest:operand-not-a-string")
			return Bool(false)
		}
		if op == "starts with" {
			return Bool(strings.HasPrefix(l.S, r.S))
		}
		return Bool(strings.HasSuffix(l.S, r.S))
	case "matches":
		if l.K != KStr || r.K != KStr {
			leave("matches on non-strings")
		}
		re, ok := safePatterns[r.S]
		if !ok {
			var err error
			re, err = regexp.Compile(r.S)
			if err != nil {
				leave("matches: pattern does not compile")
			}
			safePatterns[r.S] = re
		}
		return Bool(re.MatchString(l.S))
	case "..":
		a, b := intOf(l, ".."), intOf(r, "..")
		out := Val{K: KArr}
		if a > b {
			// the range counts down
			if a-b > 60 {
				leave("long range")
			}
			e.sh.feature("descending-range")
			for i := a; i >= b; i-- {
				out.A = append(out.A, Num(float64(i)))
			}
			return out
		}
		if b-a > 60 && !(e.sh.p.Large && b-a <= 1<<20) {
			leave("long range")
		}
		for i := a; i <= b; i++ {
			out.A = append(out.A, Num(float64(i)))
		}
		return out
	case "b-and":
		return Num(float64(intOf(l, op) & intOf(r, op)))
	case "b-or":
		return Num(float64(intOf(l, op) | intOf(r, op)))
	case "b-xor":
		return Num(float64(intOf(l, op) ^ intOf(r, op)))
	}
	panic("model: unknown binary operator " + op)
}

// ---- registered callbacks (mirrors worker/env.go) --------------------------

func (e *ev) callFunc(x *E) Val {
	// from-imported macros take the place of functions of the same name
	if m, ok := e.fromMacros[x.S]; ok {
		return e.callMacro(m, e.exprs(x.A))
	}
	switch x.S {
	case "id", "cat", "arr", "nul", "who", "probe", "add", "truth":
	default:
		fail("undeclared function " + x.S)
	}
	args := e.exprs(x.A)
	var ret Val
	switch x.S {
	case "id":
		if len(args) > 0 {
			ret = args[0]
		}
	case "cat":
		parts := make([]string, len(args))
		for i, a := range args {
			parts[i] = Repr(a)
		}
		ret = Str("<" + strings.Join(parts, ";") + ">")
	case "arr":
		ret = Val{K: KArr, A: args}
	case "nul":
		ret = Null()
	case "who":
		ret = Str(e.name)
	case "probe":
		if len(args) == 0 || args[0].K != KStr {
			ret = Str("?")
		} else if v, ok := e.probe(args[0].S); ok {
			ret = Str(Repr(v))
		} else {
			ret = Str("U")
		}
	case "add":
		s := 0.0
		for _, a := range args {
			if a.K == KNum {
				s += a.N
			}
		}
		ret = Num(s)
	case "truth":
		ret = Bool(len(args) > 0 && args[0].K == KBool && args[0].B)
	}
	for _, a := range args {
		if a.K == KMacros {
			leave("macro set passed to a callback")
		}
	}
	e.call(x.S, args)
	return ret
}

// probe looks a name up without the region checks of get (it reports what the
// scope holds).
func (e *ev) probe(name string) (Val, bool) {
	for i := len(e.scopes) - 1; i >= 0; i-- {
		if v, ok := e.scopes[i].vars[name]; ok {
			if v.K == KMacros {
				leave("probe of a macro set")
			}
			if name == "loop" {
				leave("probe of loop")
			}
			return v, true
		}
	}
	for i := len(e.scopes) - 1; i >= 0; i-- {
		if e.scopes[i].prevSets[name] {
			leave("variable set in an earlier iteration probed in a later one")
		}
	}
	return Null(), false
}

func (e *ev) applyFilter(name string, args []Val) Val {
	var ret Val
	switch name {
	case "wrap":
		s := "[" + OwnStr(args[0])
		for _, a := range args[1:] {
			s += "|" + OwnStr(a)
		}
		ret = Str(s + "]")
	case "up":
		ret = Str(strings.ToUpper(OwnStr(args[0])))
	case "fid":
		ret = args[0]
	case "flen":
		// the length of a string in bytes, of a list in elements
		switch args[0].K {
		case KArr, KHash:
			ret = Num(float64(len(args[0].A)))
		default:
			ret = Num(float64(len(OwnStr(args[0]))))
		}
	case "lidx":
		ret = Str(OwnStr(args[0]) + "@-")
		if l, ok := e.get("loop"); ok && l.K == KHash {
			if idx, ok := l.HashGet("index"); ok {
				ret = Str(OwnStr(args[0]) + "@" + OwnStr(idx))
			}
		}
	case "frepr":
		ret = Str(Repr(args[0]))
	default:
		fail("undeclared filter " + name)
	}
	e.call("|"+name, args)
	return ret
}

func (e *ev) applyTest(name string, subj Val, args []Val) bool {
	var ret bool
	num := func(v Val) (float64, bool) { return v.N, v.K == KNum }
	switch name {
	case "odd":
		f, ok := num(subj)
		ret = ok && math.Mod(math.Abs(math.Trunc(f)), 2) == 1
	case "even":
		f, ok := num(subj)
		ret = ok && math.Mod(math.Abs(math.Trunc(f)), 2) == 0
	case "divisible by":
		f, ok := num(subj)
		if ok && len(args) > 0 {
			d, ok2 := num(args[0])
			if ok2 && math.Trunc(d) != 0 {
				ret = math.Mod(math.Trunc(f), math.Trunc(d)) == 0
			}
		}
	case "nullish":
		ret = subj.K == KNull
	case "stringy":
		ret = subj.K == KStr
	default:
		fail("unknown test " + name)
	}
	e.call("?"+name, append([]Val{subj}, args...))
	return ret
}

// plainWord reports whether s consists of ASCII letters only and is not a
// spelling of a number in any language involved ("NaN", "Inf", "Infinity").
func plainWord(s string) bool {
	if s == "" {
		return false
	}
	for i := 0; i < len(s); i++ {
		c := s[i]
		if !(c >= 'a' && c <= 'z' || c >= 'A' && c <= 'Z') {
			return false
		}
	}
	switch strings.ToLower(s) {
	case "nan", "inf", "infinity", "e":
		return false
	}
	return true
}
