package model

// E is an expression node.
//
//	null bool num str name
//	un(S=op, A[0])  bin(S=op, A[0], A[1])  cond(A[0..2])  group(A[0])
//	arr(A)  hash(KS keys, A values)  attr(A[0], S=key)  idx(A[0], A[1])
//	call(S=function, A=args)  filter(S=name, A[0]=piped, A[1:]=args)
//	test(S=test name, B=negated, A[0]=subject, A[1:]=args)
//	interp(A=parts; str parts are literal text)
//	mcall(S=macro, T=form self|alias|from, U=alias or local name, A=args)
//	parent()  blockfn(A[0]=name expression)
type E struct {
	K string  `json:"k"`
	N float64 `json:"n,omitempty"`
	S string  `json:"s,omitempty"`
	T string  `json:"t,omitempty"`
	U string  `json:"u,omitempty"`
	B bool    `json:"b,omitempty"`
	A []*E    `json:"a,omitempty"`
	// KS are hash keys: name (bare identifier), str or num expressions.
	KS []*E `json:"ks,omitempty"`
	// Spelling attributes (C14): quote style and trailing comma.
	Q     string `json:"q,omitempty"`
	Comma bool   `json:"comma,omitempty"`
}

// Elif is one elseif arm.
type Elif struct {
	Cond *E   `json:"cond"`
	Body []*N `json:"body,omitempty"`
}

// N is a statement node.
//
//	text(S)  print(X)  comment(S)  verbatim(S)
//	if(X, Body, Elifs, Else/HasElse)
//	for(T=key var, S=value var, X=sequence, Y=inline condition, Body, Else/HasElse)
//	set(S=name, X)  setcap(S=name, Body)  do(X)
//	filter(Names, Body)  block(S=name, Body)
//	extends(X)  use(X, Pairs=aliases)  include(X, Y=with, Only)  embed(X, Y, Only, Blocks)
//	macro(S=name, Names=params, Body)  import(X, S=alias)  from(X, Pairs=[name, alias])
type N struct {
	K       string      `json:"k"`
	S       string      `json:"s,omitempty"`
	T       string      `json:"t,omitempty"`
	X       *E          `json:"x,omitempty"`
	Y       *E          `json:"y,omitempty"`
	Body    []*N        `json:"body,omitempty"`
	Else    []*N        `json:"else,omitempty"`
	HasElse bool        `json:"haselse,omitempty"`
	Elifs   []*Elif     `json:"elifs,omitempty"`
	Names   []string    `json:"names,omitempty"`
	Pairs   [][2]string `json:"pairs,omitempty"`
	Only    bool        `json:"only,omitempty"`
	Blocks  []*N        `json:"blocks,omitempty"`
	// Spelling attributes.
	TrimL bool `json:"triml,omitempty"` // '-' marker on opening delimiter(s)
	TrimR bool `json:"trimr,omitempty"`
	// TrimI: '-' markers on the inner delimiters of a verbatim section
	// ({% verbatim -%}body{%- endverbatim %}); written only when the body
	// neither begins nor ends with whitespace, so there is nothing to trim
	TrimI bool `json:"trimi,omitempty"`
}

// Tpl is a named template.
type Tpl struct {
	Name string `json:"name"`
	Body []*N   `json:"body"`
}

// CtxVar is one context variable.
type CtxVar struct {
	Name    string `json:"name"`
	V       Val    `json:"v"`
	Carrier string `json:"carrier,omitempty"`
}

// Program is a set of templates, an entry point and a context.
type Program struct {
	Env    string    `json:"env,omitempty"`    // core | twig
	Loader string    `json:"loader,omitempty"` // memory (default) | fs
	Tpls   []*Tpl    `json:"tpls"`
	Entry  string    `json:"entry"`
	Ctx    []*CtxVar `json:"ctx,omitempty"`
	// Large lifts the evaluator's protective limits (steps, range length,
	// include / inheritance depth) for the fixed large instances.
	Large bool `json:"large,omitempty"`
}

// Tpl returns the template with the given name.
func (p *Program) Tpl(name string) *Tpl {
	for _, t := range p.Tpls {
		if t.Name == name {
			return t
		}
	}
	return nil
}

// Constructors used by generators and tests.

func ENull() *E           { return &E{K: "null"} }
func EBool(b bool) *E     { return &E{K: "bool", B: b} }
func ENum(f float64) *E   { return &E{K: "num", N: f} }
func EStr(s string) *E    { return &E{K: "str", S: s} }
func EName(s string) *E   { return &E{K: "name", S: s} }
func EUn(op string, a *E) *E {
	return &E{K: "un", S: op, A: []*E{a}}
}
func EBin(op string, a, b *E) *E {
	return &E{K: "bin", S: op, A: []*E{a, b}}
}
func ECond(c, a, b *E) *E       { return &E{K: "cond", A: []*E{c, a, b}} }
func EArr(xs ...*E) *E          { return &E{K: "arr", A: xs} }
func EAttr(c *E, k string) *E   { return &E{K: "attr", S: k, A: []*E{c}} }
func EIdx(c, k *E) *E           { return &E{K: "idx", A: []*E{c, k}} }
func ECall(f string, a ...*E) *E { return &E{K: "call", S: f, A: a} }
func EFilter(f string, piped *E, a ...*E) *E {
	return &E{K: "filter", S: f, A: append([]*E{piped}, a...)}
}
func ETest(name string, neg bool, subj *E, a ...*E) *E {
	return &E{K: "test", S: name, B: neg, A: append([]*E{subj}, a...)}
}

func NText(s string) *N   { return &N{K: "text", S: s} }
func NPrint(x *E) *N      { return &N{K: "print", X: x} }

// Walk calls f for every statement node, depth first.
func Walk(ns []*N, f func(n *N, depth int)) { walk(ns, 0, f) }

func walk(ns []*N, d int, f func(n *N, depth int)) {
	for _, n := range ns {
		f(n, d)
		walk(n.Body, d+1, f)
		for _, e := range n.Elifs {
			walk(e.Body, d+1, f)
		}
		walk(n.Else, d+1, f)
		walk(n.Blocks, d+1, f)
	}
}

// WalkE calls f for every expression node below e.
func WalkE(e *E, f func(e *E)) {
	if e == nil {
		return
	}
	f(e)
	for _, a := range e.A {
		WalkE(a, f)
	}
	for _, a := range e.KS {
		WalkE(a, f)
	}
}

// Exprs calls f for every expression of every statement below ns.
func Exprs(ns []*N, f func(e *E)) {
	Walk(ns, func(n *N, _ int) {
		WalkE(n.X, f)
		WalkE(n.Y, f)
		for _, el := range n.Elifs {
			WalkE(el.Cond, f)
		}
	})
}
