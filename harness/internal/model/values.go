// Package model is the independent reference for the template language: an
// AST of its own, a printer from AST to template source (with spellings and
// positions) and a reference evaluator. It is written from the property
// statements and the Twig documentation, not from stick's executor, and it
// never imports stick.
package model

import (
	"math"
	"sort"
	"strconv"
	"strings"

	"verif/internal/sb"
)

// Kind of a model value.
type Kind int

const (
	KNull Kind = iota
	KBool
	KNum
	KStr
	KArr
	KHash
)

// Val is a model value.
type Val struct {
	K    Kind     `json:"k"`
	B    bool     `json:"b,omitempty"`
	N    float64  `json:"n,omitempty"`
	S    string   `json:"s,omitempty"`
	A    []Val    `json:"a,omitempty"`    // array elements / hash values
	Keys []string `json:"keys,omitempty"` // hash keys (insertion order)
}

func Null() Val            { return Val{K: KNull} }
func Bool(b bool) Val      { return Val{K: KBool, B: b} }
func Num(f float64) Val    { return Val{K: KNum, N: f} }
// MaxStr bounds the length of any string value (and of the output): programs
// that double a string in a loop are outside what any check needs to run.
const MaxStr = 1 << 20

func Str(s string) Val {
	if len(s) > MaxStr {
		leave("string too long")
	}
	return Val{K: KStr, S: s}
}
func Arr(xs ...Val) Val    { return Val{K: KArr, A: xs} }
func (v Val) IsNull() bool { return v.K == KNull }

// HashGet looks a key up in a hash value.
func (v Val) HashGet(k string) (Val, bool) {
	for i := len(v.Keys) - 1; i >= 0; i-- {
		if v.Keys[i] == k {
			return v.A[i], true
		}
	}
	return Null(), false
}

// HashSet sets a key (later entries replace earlier ones, order of first
// insertion is kept).
func (v *Val) HashSet(k string, x Val) {
	for i := range v.Keys {
		if v.Keys[i] == k {
			v.A[i] = x
			return
		}
	}
	v.Keys = append(v.Keys, k)
	v.A = append(v.A, x)
}

// discard is raised (as a panic value) when a computation leaves the region
// in which the language semantics and stick's documented coercions agree.
type discard struct{ why string }

func leave(why string) { panic(discard{why}) }

// evalError is raised when the language requires a run-time error.
type evalError struct{ why string }

func fail(why string) { panic(evalError{why}) }

// FmtNum is the canonical number rendering shared with the worker.
func FmtNum(f float64) string {
	// (integral values positionally, whichever Go kind carried them: an int
	// of a million and a float64 of a million are the same number)
	if f == math.Trunc(f) && math.Abs(f) < 1e15 {
		return strconv.FormatFloat(f, 'f', -1, 64)
	}
	return strconv.FormatFloat(f, 'g', -1, 64)
}

// printableNum reports whether a number lies in the region where the printed
// forms agree: zero, or 1e-4 <= |v| < 1e15 with at most 14 significant digits
// (numbers are written in positional notation there, integral or not).
func printableNum(f float64) bool {
	if f == 0 {
		return !math.Signbit(f)
	}
	if math.IsNaN(f) || math.IsInf(f, 0) {
		return false
	}
	a := math.Abs(f)
	if a < 1e-4 || a >= 1e15 {
		return false
	}
	s := strconv.FormatFloat(a, 'e', -1, 64)
	mant := s[:strings.IndexByte(s, 'e')]
	digits := len(strings.Replace(mant, ".", "", 1))
	return digits <= 14
}

// numStr renders a number the way the language prints it (inside the region).
func numStr(f float64) string {
	if !printableNum(f) {
		leave("number outside the printable region: " + FmtNum(f))
	}
	return strconv.FormatFloat(f, 'f', -1, 64)
}

// ToStr is the documented string coercion.
func ToStr(v Val) string {
	switch v.K {
	case KNull:
		return ""
	case KBool:
		if v.B {
			return "1"
		}
		return ""
	case KNum:
		return numStr(v.N)
	case KStr:
		return v.S
	}
	leave("array or hash converted to string")
	return ""
}

// ToNum is the documented number coercion (numbers, booleans, null and
// numeric strings; anything else is outside the region).
func ToNum(v Val) float64 {
	switch v.K {
	case KNull:
		return 0
	case KBool:
		if v.B {
			return 1
		}
		return 0
	case KNum:
		return v.N
	case KStr:
		if isDecimalNumeral(v.S) {
			f, err := strconv.ParseFloat(v.S, 64)
			if err == nil {
				return f
			}
		}
		leave("non-numeric string used as a number")
	}
	leave("array or hash used as a number")
	return 0
}

func isDecimalNumeral(s string) bool {
	if s == "" {
		return false
	}
	i := 0
	if s[0] == '-' {
		i++
	}
	digits, dot := 0, false
	for ; i < len(s); i++ {
		switch {
		case s[i] >= '0' && s[i] <= '9':
			digits++
		case s[i] == '.' && !dot && digits > 0:
			dot = true
		default:
			return false
		}
	}
	return digits > 0 && s[len(s)-1] != '.'
}

// Truthy is the documented boolean coercion, restricted to the region.
func Truthy(v Val) bool {
	switch v.K {
	case KNull:
		return false
	case KBool:
		return v.B
	case KNum:
		if v.N < 0 || math.IsNaN(v.N) {
			leave("truthiness of a negative number")
		}
		return v.N > 0
	case KStr:
		if v.S == "0" {
			leave("truthiness of the string \"0\"")
		}
		return v.S != ""
	case KArr, KHash:
		if len(v.A) == 0 {
			return false
		}
		leave("truthiness of a non-empty array")
	}
	return false
}

// LooseEq is == inside the region (same kinds only).
func LooseEq(a, b Val) bool {
	if a.K != b.K {
		leave("== between different kinds")
	}
	switch a.K {
	case KNull:
		return true
	case KBool:
		return a.B == b.B
	case KNum:
		if (a.N == 0 && math.Signbit(a.N)) || (b.N == 0 && math.Signbit(b.N)) {
			leave("negative zero")
		}
		if !printableNum(a.N) || !printableNum(b.N) {
			leave("== on numbers outside the printable region")
		}
		return a.N == b.N
	case KStr:
		if isDecimalNumeral(a.S) || isDecimalNumeral(b.S) {
			leave("== on numeric strings")
		}
		return a.S == b.S
	}
	// arrays and hashes: equal when they have the same keys in the same
	// order and equal elements
	if a.K == KArr || a.K == KHash {
		if len(a.A) != len(b.A) {
			return false
		}
		if a.K == KHash {
			// hashes over different sets of keys are unequal whatever they
			// hold (a key the other side lacks is not an entry holding null)
			has := map[string]bool{}
			for _, k := range a.Keys {
				has[k] = true
			}
			for _, k := range b.Keys {
				if !has[k] {
					return false
				}
			}
		}
		for i := range a.A {
			if a.K == KHash && a.Keys[i] != b.Keys[i] {
				if len(a.A) > 1 {
					leave("== on hashes with keys in different order")
				}
				return false
			}
			if a.A[i].K != b.A[i].K {
				leave("== between different kinds")
			}
			if !LooseEq(a.A[i], b.A[i]) {
				return false
			}
		}
		return true
	}
	leave("== on other values")
	return false
}

// Repr renders a model value in the canonical form used by the worker's
// recording callbacks.
func Repr(v Val) string {
	var b strings.Builder
	repr(&b, v)
	return b.String()
}

func repr(b *strings.Builder, v Val) {
	switch v.K {
	case KNull:
		b.WriteString("~")
	case KBool:
		if v.B {
			b.WriteString("T")
		} else {
			b.WriteString("F")
		}
	case KNum:
		b.WriteString("#" + FmtNum(v.N))
	case KStr:
		b.WriteString(strconv.Quote(v.S))
	case KArr:
		b.WriteString("[")
		for i, e := range v.A {
			if i > 0 {
				b.WriteString(",")
			}
			repr(b, e)
		}
		b.WriteString("]")
	case KHash:
		idx := make([]int, len(v.Keys))
		for i := range idx {
			idx[i] = i
		}
		sort.Slice(idx, func(i, j int) bool { return v.Keys[idx[i]] < v.Keys[idx[j]] })
		b.WriteString("{")
		for n, i := range idx {
			if n > 0 {
				b.WriteString(",")
			}
			b.WriteString(strconv.Quote(v.Keys[i]) + ":")
			repr(b, v.A[i])
		}
		b.WriteString("}")
	}
}

// OwnStr mirrors the worker's OwnStr for model values.
func OwnStr(v Val) string {
	switch v.K {
	case KNull:
		return ""
	case KStr:
		return v.S
	case KBool:
		if v.B {
			return "1"
		}
		return ""
	case KNum:
		return FmtNum(v.N)
	}
	return Repr(v)
}

// ToV converts a model value into the wire description of the Go value that
// carries it into stick. carrier selects the Go type for numbers and arrays
// ("" = the natural one: float64, []stick.Value, map[string]stick.Value).
func ToV(v Val, carrier string) sb.V {
	switch v.K {
	case KNull:
		return sb.V{K: "null"}
	case KBool:
		return sb.V{K: "bool", B: v.B}
	case KNum:
		if carrier != "" && v.N == math.Trunc(v.N) && math.Abs(v.N) < 100 && (v.N >= 0 || !strings.HasPrefix(carrier, "uint")) {
			switch carrier {
			case "int", "int8", "int16", "int32", "int64", "uint", "uint8", "uint16", "uint32", "uint64", "float32":
				return sb.V{K: carrier, N: v.N}
			}
		}
		return sb.V{K: "num", N: v.N}
	case KStr:
		return sb.V{K: "str", S: v.S}
	case KArr:
		es := make([]sb.V, len(v.A))
		for i, e := range v.A {
			es[i] = ToV(e, "")
		}
		if carrier == "slice" && len(v.A) > 0 {
			// typed slice when homogeneous
			k := v.A[0].K
			same := true
			for _, e := range v.A {
				if e.K != k {
					same = false
				}
			}
			if same {
				switch k {
				case KNum:
					allInt := true
					for _, e := range v.A {
						if e.N != math.Trunc(e.N) || math.Abs(e.N) > 1e6 {
							allInt = false
						}
					}
					if allInt {
						return sb.V{K: "slice:int", E: es}
					}
					return sb.V{K: "slice:float64", E: es}
				case KStr:
					return sb.V{K: "slice:str", E: es}
				case KBool:
					return sb.V{K: "slice:bool", E: es}
				}
			}
		}
		return sb.V{K: "arr", E: es}
	case KHash:
		es := make([]sb.V, len(v.A))
		for i, e := range v.A {
			es[i] = ToV(e, "")
		}
		if carrier == "map:str:str" {
			// a Go map[string]string when every value is a string
			allStr := true
			kv := make([]sb.V, len(v.Keys))
			for i, e := range v.A {
				allStr = allStr && e.K == KStr
				kv[i] = sb.V{K: "str", S: v.Keys[i]}
			}
			if allStr {
				return sb.V{K: "map:str:str", KV: kv, E: es}
			}
		}
		if strings.HasPrefix(carrier, "map:int") || strings.HasPrefix(carrier, "map:uint8") || strings.HasPrefix(carrier, "map:int64") {
			// a Go map with integer keys when every key spells a small integer
			// (and, for map:K:str, every value is a string)
			allInt, allStr := true, true
			kv := make([]sb.V, len(v.Keys))
			for i, k := range v.Keys {
				n, err := strconv.Atoi(k)
				allInt = allInt && err == nil && strconv.Itoa(n) == k && n >= 0 && n < 100
				allStr = allStr && v.A[i].K == KStr
				kv[i] = sb.V{K: "num", N: float64(n)}
			}
			if allInt && (allStr || strings.HasSuffix(carrier, ":any")) {
				return sb.V{K: carrier, KV: kv, E: es}
			}
		}
		return sb.V{K: "hash", E: es, KS: append([]string(nil), v.Keys...)}
	}
	return sb.V{K: "null"}
}
