//go:build !race

package worker

const raceEnabled = false
