package worker

import (
	"bytes"
	"fmt"
	"io"
	"os"
	"regexp"
	"runtime"
	"runtime/debug"
	"sort"
	"strings"
	"time"

	"github.com/tyler-sommer/stick"

	"verif/internal/sb"
)

var reGoroutine = regexp.MustCompile(`^goroutine (\d+) \[([^\]]*)\]`)

// stickGoroutines returns id -> description of every goroutine (other than
// the caller's) that has a stick frame on its stack.
func stickGoroutines() map[string]string {
	buf := make([]byte, 4<<20)
	n := runtime.Stack(buf, true)
	out := map[string]string{}
	for i, blk := range strings.Split(string(buf[:n]), "\n\n") {
		if i == 0 {
			continue // the calling goroutine
		}
		m := reGoroutine.FindStringSubmatch(blk)
		if m == nil || !strings.Contains(blk, "github.com/tyler-sommer/stick") {
			continue
		}
		out[m[1]] = m[2] + " at " + sb.StickFrame(blk)
	}
	return out
}

func openFDs() map[string]string {
	out := map[string]string{}
	ents, err := os.ReadDir("/proc/self/fd")
	if err != nil {
		return out
	}
	for _, e := range ents {
		target, err := os.Readlink("/proc/self/fd/" + e.Name())
		if err != nil {
			continue // the descriptor of the directory listing itself
		}
		out[e.Name()] = target
	}
	return out
}

// opLeak runs a history of calls and reports goroutines and descriptors that
// are still held on behalf of those calls afterwards. The garbage collector is
// disabled for the duration so that finalizers cannot hide unclosed files.
func opLeak(req *sb.Req) *sb.Resp {
	resp := &sb.Resp{Status: "ok"}
	old := debug.SetGCPercent(-1)
	defer func() {
		debug.SetGCPercent(old)
		runtime.GC()
		runtime.GC()
	}()
	envs := map[string]*built{}
	defer func() {
		for _, b := range envs {
			b.cleanup()
		}
	}()
	get := func(kind, loader string) (*built, error) {
		key := kind + "/" + loader
		if b, ok := envs[key]; ok {
			return b, nil
		}
		b, err := buildEnv(kind, loader, req.Templates, 0, 0)
		if err != nil {
			return nil, err
		}
		envs[key] = b
		return b, nil
	}
	// environments (and the fs directory) are set up before the baseline
	for _, c := range req.Calls {
		if _, err := get(c.Env, c.Loader); err != nil {
			return &sb.Resp{Status: "infra", Err: err.Error()}
		}
	}
	gBefore, fBefore := stickGoroutines(), openFDs()
	for _, c := range req.Calls {
		b, _ := get(c.Env, c.Loader)
		ctx := buildCtx(c.Ctx)
		var err error
		var out bytes.Buffer
		switch c.Kind {
		case "parse":
			_, err = b.env.Parse(c.Entry)
		case "safe":
			err = b.env.ExecuteSafe(c.Entry, &out, ctx)
		default:
			err = b.env.Execute(c.Entry, io.Writer(&out), ctx)
		}
		sr := sb.SubResp{Out: out.String()}
		if err != nil {
			sr.IsE, sr.Err = true, err.Error()
		}
		resp.Subs = append(resp.Subs, sr)
	}
	// bounded settle: goroutines that are merely finishing get time to exit
	var leaked map[string]string
	for i := 0; i < 40; i++ {
		leaked = map[string]string{}
		for id, d := range stickGoroutines() {
			if _, ok := gBefore[id]; !ok {
				leaked[id] = d
			}
		}
		if len(leaked) == 0 {
			break
		}
		time.Sleep(5 * time.Millisecond)
	}
	for id, d := range leaked {
		resp.Goroutines = append(resp.Goroutines, fmt.Sprintf("goroutine %s [%s]", id, d))
	}
	sort.Strings(resp.Goroutines)
	// Descriptors: anything open now that was not open before. Files of
	// earlier requests (whose finalizers may run at any time and whose numbers
	// get reused) are recognised by their directory and ignored; files below
	// this request's template directories are always reported.
	cur := map[string]bool{}
	for _, b := range envs {
		if b.fsDir != "" {
			cur[b.fsDir] = true
		}
	}
	for fd, target := range openFDs() {
		mine := false
		for d := range cur {
			if strings.HasPrefix(target, d+"/") {
				mine = true
			}
		}
		foreign := strings.Contains(target, "/fs/w") && !mine
		if foreign {
			continue
		}
		if prev, ok := fBefore[fd]; mine || !ok || prev != target {
			resp.FDs = append(resp.FDs, target)
		}
	}
	sort.Strings(resp.FDs)
	_ = stick.CoerceString
	return resp
}
