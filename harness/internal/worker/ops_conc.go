package worker

import (
	"bytes"
	"runtime"
	"strings"
	"sync"

	"github.com/tyler-sommer/stick"
	"github.com/tyler-sommer/stick/parse"

	"verif/internal/sb"
)

// yieldVisitor is a user-level NodeVisitor that perturbs the schedule: it
// yields the processor at some nodes, which widens the window between what
// other visitors do on entering and on leaving a node.
type yieldVisitor struct{ every int }

func (v *yieldVisitor) Enter(n parse.Node) {
	if v.every > 0 {
		if p := n.Start(); (p.Line+p.Offset)%v.every == 0 {
			runtime.Gosched()
		}
	}
}
func (v *yieldVisitor) Leave(n parse.Node) {
	if v.every > 1 {
		if p := n.Start(); (p.Line+p.Offset)%(v.every-1) == 0 {
			runtime.Gosched()
		}
	}
}

// sharedVals are values that every call of the current phase finds in its
// (own) context map: read-only application data such as a settings map.
var sharedVals map[string]stick.Value

func callCtx(c sb.Call) map[string]stick.Value {
	ctx := buildCtx(c.Ctx)
	if ctx != nil {
		for k, v := range sharedVals {
			ctx[k] = v
		}
	}
	return ctx
}

func runCall(env *stick.Env, c sb.Call, fsDir ...string) sb.SubResp {
	var out bytes.Buffer
	var err error
	switch c.Kind {
	case "parse":
		var tree *parse.Tree
		tree, err = env.Parse(c.Entry)
		if err == nil && tree != nil {
			out.WriteString(clip(tree.Root().String(), 2000))
		}
	case "safe":
		err = env.ExecuteSafe(c.Entry, &out, callCtx(c))
	default:
		err = env.Execute(c.Entry, &out, callCtx(c))
	}
	sr := sb.SubResp{Out: out.String()}
	if err != nil {
		sr.IsE, sr.Err = true, err.Error()
		// the scratch directory of the filesystem loader differs per environment
		for _, d := range fsDir {
			if d != "" {
				sr.Err = strings.ReplaceAll(sr.Err, d, "<fs>")
			}
		}
	}
	return sr
}

// opConc runs every call alone on a fresh environment (Subs2) and then all of
// them concurrently on one shared environment (Subs), each with its own
// context and writer.
func opConc(req *sb.Req) *sb.Resp {
	resp := &sb.Resp{Status: "ok"}
	if req.Procs > 0 {
		defer runtime.GOMAXPROCS(runtime.GOMAXPROCS(req.Procs))
	}
	// The concurrent phase comes first: lazily initialised state of the
	// library must be cold when the goroutines start (the parent restarts the
	// worker regularly for the same reason).
	b, err := buildEnv(req.Env, req.Loader, req.Templates, 0, req.Yield)
	if err != nil {
		return &sb.Resp{Status: "infra", Err: err.Error()}
	}
	defer b.cleanup()
	if req.Yield > 0 {
		b.env.Visitors = append(b.env.Visitors, &yieldVisitor{every: req.Yield + 1})
	}
	resp.Subs = make([]sb.SubResp, len(req.Calls))
	// one instance of the shared values for all calls on the shared
	// environment; every run-alone call gets a fresh instance
	sharedVals = buildCtx(req.Ctx)
	defer func() { sharedVals = nil }()
	if req.Extra["mode"] == "serial" {
		// the serial schedule: the same calls one after the other on the one
		// shared environment (state kept by the environment or the library
		// between calls must not change any result)
		for i, c := range req.Calls {
			resp.Subs[i] = runCall(b.env, c, b.fsDir)
		}
		for _, c := range req.Calls {
			b2, err := buildEnv(req.Env, req.Loader, req.Templates, 0, 0)
			if err != nil {
				return &sb.Resp{Status: "infra", Err: err.Error()}
			}
			sharedVals = buildCtx(req.Ctx)
			resp.Subs2 = append(resp.Subs2, runCall(b2.env, c, b2.fsDir))
			b2.cleanup()
		}
		return resp
	}
	var wg sync.WaitGroup
	start := make(chan struct{})
	for i, c := range req.Calls {
		wg.Add(1)
		go func(i int, c sb.Call) {
			defer wg.Done()
			<-start
			resp.Subs[i] = runCall(b.env, c, b.fsDir)
		}(i, c)
	}
	close(start)
	wg.Wait()
	for _, c := range req.Calls {
		b2, err := buildEnv(req.Env, req.Loader, req.Templates, 0, 0)
		if err != nil {
			return &sb.Resp{Status: "infra", Err: err.Error()}
		}
		sharedVals = buildCtx(req.Ctx)
		resp.Subs2 = append(resp.Subs2, runCall(b2.env, c, b2.fsDir))
		b2.cleanup()
	}
	return resp
}
