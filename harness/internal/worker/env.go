package worker

import (
	"io"
	"errors"
	"fmt"
	"math"
	"os"
	"path/filepath"
	"runtime"
	"strings"
	"sync"

	"github.com/tyler-sommer/stick"
	"github.com/tyler-sommer/stick/twig"

	"verif/internal/sb"
)

// recorder collects callback invocations. It is race-free (C18 requires
// race-free user callbacks).
type recorder struct {
	mu    sync.Mutex
	calls []sb.CallRec
	yield int // scheduling perturbation: Gosched every n-th callback
	n     int
}

func (r *recorder) add(ctx stick.Context, name string, args []stick.Value, ret string) {
	rec := sb.CallRec{Name: name, Tpl: ctx.Name(), Ret: ret}
	rec.Args = make([]string, len(args))
	for i, a := range args {
		rec.Args[i] = Repr(a)
	}
	r.mu.Lock()
	r.calls = append(r.calls, rec)
	r.n++
	y := r.yield > 0 && r.n%r.yield == 0
	r.mu.Unlock()
	if y {
		runtime.Gosched()
	}
}

// install registers the recording callbacks on env.
func install(env *stick.Env, rec *recorder) {
	fn := func(name string, f func(ctx stick.Context, args ...stick.Value) stick.Value) {
		env.Functions[name] = func(ctx stick.Context, args ...stick.Value) stick.Value {
			ret := f(ctx, args...)
			rec.add(ctx, name, args, "")
			return ret
		}
	}
	fn("id", func(ctx stick.Context, args ...stick.Value) stick.Value {
		if len(args) == 0 {
			return nil
		}
		return args[0]
	})
	fn("cat", func(ctx stick.Context, args ...stick.Value) stick.Value {
		parts := make([]string, len(args))
		for i, a := range args {
			parts[i] = Repr(a)
		}
		return "<" + strings.Join(parts, ";") + ">"
	})
	fn("arr", func(ctx stick.Context, args ...stick.Value) stick.Value {
		out := make([]stick.Value, len(args))
		copy(out, args)
		return out
	})
	fn("nul", func(ctx stick.Context, args ...stick.Value) stick.Value { return nil })
	fn("who", func(ctx stick.Context, args ...stick.Value) stick.Value { return ctx.Name() })
	fn("probe", func(ctx stick.Context, args ...stick.Value) stick.Value {
		if len(args) == 0 {
			return "?"
		}
		name, _ := args[0].(string)
		v, ok := ctx.Scope().Get(name)
		// the flattened view handed to includes and callbacks must show the
		// same binding as the lookup
		av, aok := ctx.Scope().All()[name]
		if ok != aok || (ok && Repr(v) != Repr(av)) {
			return fmt.Sprintf("SCOPE-DISAGREES(Get=%v,%s All=%v,%s)", ok, Repr(v), aok, Repr(av))
		}
		if !ok {
			return "U"
		}
		return Repr(v)
	})
	fn("add", func(ctx stick.Context, args ...stick.Value) stick.Value {
		s := 0.0
		for _, a := range args {
			if f, ok := OwnNum(a); ok {
				s += f
			}
		}
		return s
	})
	fn("truth", func(ctx stick.Context, args ...stick.Value) stick.Value {
		// returns its first argument as a boolean by the harness' own rule
		if len(args) == 0 {
			return false
		}
		b, _ := args[0].(bool)
		return b
	})

	flt := func(name string, f func(ctx stick.Context, val stick.Value, args ...stick.Value) stick.Value) {
		env.Filters[name] = func(ctx stick.Context, val stick.Value, args ...stick.Value) stick.Value {
			ret := f(ctx, val, args...)
			rec.add(ctx, "|"+name, append([]stick.Value{val}, args...), "")
			return ret
		}
	}
	flt("wrap", func(ctx stick.Context, val stick.Value, args ...stick.Value) stick.Value {
		s := "[" + OwnStr(val)
		for _, a := range args {
			s += "|" + OwnStr(a)
		}
		return s + "]"
	})
	flt("up", func(ctx stick.Context, val stick.Value, args ...stick.Value) stick.Value {
		return strings.ToUpper(OwnStr(val))
	})
	flt("lidx", func(ctx stick.Context, val stick.Value, args ...stick.Value) stick.Value {
		// reads the innermost loop's metadata from the scope, as a user filter may
		l, ok := ctx.Scope().Get("loop")
		if !ok || l == nil {
			return OwnStr(val) + "@-"
		}
		idx, err := stick.GetAttr(l, "index")
		if err != nil {
			return OwnStr(val) + "@?"
		}
		return OwnStr(val) + "@" + OwnStr(idx)
	})
	flt("flen", func(ctx stick.Context, val stick.Value, args ...stick.Value) stick.Value {
		if n, err := stick.Len(val); err == nil && val != nil {
			return n
		}
		return len(OwnStr(val))
	})
	flt("fid", func(ctx stick.Context, val stick.Value, args ...stick.Value) stick.Value { return val })
	flt("frepr", func(ctx stick.Context, val stick.Value, args ...stick.Value) stick.Value { return Repr(val) })

	// explicit-escaping filters used by the C12 translation (core environment)
	env.Filters["hraw"] = func(ctx stick.Context, val stick.Value, args ...stick.Value) stick.Value {
		return stick.NewSafeValue(ownText(val), "html", "html_attr", "js", "css", "url")
	}
	env.Filters["hesc"] = func(ctx stick.Context, val stick.Value, args ...stick.Value) stick.Value {
		typ := "html"
		if len(args) > 0 {
			typ, _ = args[0].(string)
		}
		f := escaper(typ)
		if f == nil {
			return val
		}
		if sv, ok := val.(stick.SafeValue); ok && sv.IsSafe(typ) {
			return val
		}
		return stick.NewSafeValue(f(ownText(val)), typ)
	}

	tst := func(name string, f func(ctx stick.Context, val stick.Value, args ...stick.Value) bool) {
		env.Tests[name] = func(ctx stick.Context, val stick.Value, args ...stick.Value) bool {
			ret := f(ctx, val, args...)
			rec.add(ctx, "?"+name, append([]stick.Value{val}, args...), "")
			return ret
		}
	}
	tst("odd", func(ctx stick.Context, val stick.Value, args ...stick.Value) bool {
		f, ok := OwnNum(val)
		return ok && math.Mod(math.Abs(math.Trunc(f)), 2) == 1
	})
	tst("even", func(ctx stick.Context, val stick.Value, args ...stick.Value) bool {
		f, ok := OwnNum(val)
		return ok && math.Mod(math.Abs(math.Trunc(f)), 2) == 0
	})
	tst("divisible by", func(ctx stick.Context, val stick.Value, args ...stick.Value) bool {
		f, ok := OwnNum(val)
		if !ok || len(args) == 0 {
			return false
		}
		d, ok := OwnNum(args[0])
		if !ok || math.Trunc(d) == 0 {
			return false
		}
		return math.Mod(math.Trunc(f), math.Trunc(d)) == 0
	})
	tst("nullish", func(ctx stick.Context, val stick.Value, args ...stick.Value) bool { return val == nil })
	tst("stringy", func(ctx stick.Context, val stick.Value, args ...stick.Value) bool {
		_, ok := val.(string)
		return ok
	})
}

// ---- loader wrapper --------------------------------------------------------

type cntLoader struct {
	inner  stick.Loader
	mu     sync.Mutex
	n      int
	failAt int
	mode   int
	yield  int
}

// failingTemplate hands out a reader that delivers a part of the source and
// then fails.
type failingTemplate struct {
	stick.Template
	keep int // bytes delivered before the error; < 0: half of the source
}

type failingReader struct {
	data []byte
}

func (r *failingReader) Read(p []byte) (int, error) {
	if len(r.data) == 0 {
		return 0, errInjectedLoad
	}
	n := copy(p, r.data)
	r.data = r.data[n:]
	return n, nil
}

func (t failingTemplate) Contents() io.Reader {
	src, _ := io.ReadAll(t.Template.Contents())
	keep := t.keep
	if keep < 0 {
		keep = len(src) / 2
	}
	return &failingReader{data: src[:keep]}
}

var errInjectedLoad = errors.New("verif: injected loader failure")

func (l *cntLoader) Load(name string) (stick.Template, error) {
	l.mu.Lock()
	l.n++
	n := l.n
	l.mu.Unlock()
	if l.yield > 0 && n%l.yield == 0 {
		runtime.Gosched()
	}
	if l.failAt > 0 && n == l.failAt {
		switch l.mode {
		case 1, 2:
			t, err := l.inner.Load(name)
			if err != nil {
				return nil, err
			}
			return failingTemplate{Template: t, keep: map[int]int{1: -1, 2: 0}[l.mode]}, nil
		}
		return nil, errInjectedLoad
	}
	return l.inner.Load(name)
}

// ---- writer ---------------------------------------------------------------

type recWriter struct {
	writes    []string
	record    bool
	n         int
	failAt    int
	mode      int
	failed    bool
	afterFail int
	accepted  strings.Builder
}

var errInjectedWrite = errors.New("verif: injected write failure")

func (w *recWriter) Write(p []byte) (int, error) {
	w.n++
	if w.failed {
		w.afterFail++
		return 0, errInjectedWrite
	}
	if w.failAt > 0 && w.n == w.failAt {
		w.failed = true
		if w.mode == 1 && len(p) > 1 {
			k := len(p) / 2
			w.accepted.Write(p[:k])
			if w.record {
				w.writes = append(w.writes, string(p[:k]))
			}
			return k, errInjectedWrite
		}
		return 0, errInjectedWrite
	}
	w.accepted.Write(p)
	if w.record {
		w.writes = append(w.writes, string(p))
	}
	return len(p), nil
}

// ---- environment -----------------------------------------------------------

type built struct {
	env    *stick.Env
	rec    *recorder
	loader *cntLoader
	fsDir  string
}

func (b *built) cleanup() {
	if b.fsDir != "" {
		os.RemoveAll(b.fsDir)
	}
}

var fsSeq int

func workDir() string {
	d := os.Getenv("VERIF_WORK")
	if d == "" {
		d = "/verif/work"
		if r := os.Getenv("VERIF_ROOT"); r != "" {
			d = filepath.Join(r, "work")
		}
	}
	return d
}

func buildEnv(kind, loader string, tpls map[string]string, lfail, yield int, lmode ...int) (*built, error) {
	b := &built{rec: &recorder{yield: yield}}
	var inner stick.Loader
	switch loader {
	case "", "string":
		inner = &stick.StringLoader{}
	case "memory":
		inner = &stick.MemoryLoader{Templates: tpls}
	case "fs":
		fsSeq++
		dir := filepath.Join(workDir(), "fs", fmt.Sprintf("w%d-%d", os.Getpid(), fsSeq))
		if err := os.MkdirAll(dir, 0o755); err != nil {
			return nil, err
		}
		for name, src := range tpls {
			p := filepath.Join(dir, name)
			os.MkdirAll(filepath.Dir(p), 0o755)
			if err := os.WriteFile(p, []byte(src), 0o644); err != nil {
				return nil, err
			}
		}
		b.fsDir = dir
		inner = stick.NewFilesystemLoader(dir)
	case "rd:dataeof", "rd:onebyte", "rd:chunk7", "rd:zero-reads":
		// a user-written Loader over the same templates whose Template hands out
		// a reader with a legal but unusual Read behaviour
		inner = &readerLoader{tpls: tpls, mode: loader[3:]}
	default:
		return nil, fmt.Errorf("unknown loader %q", loader)
	}
	b.loader = &cntLoader{inner: inner, failAt: lfail, yield: yield}
	if len(lmode) > 0 {
		b.loader.mode = lmode[0]
	}
	switch kind {
	case "", "core":
		b.env = stick.New(b.loader)
	case "twig":
		// Another, differently configured escaping extension exists in the same
		// process (as an application with a second environment would have): it
		// must not influence this environment.
		foreignExtension()
		b.env = twig.New(b.loader)
		foreignExtension()
	default:
		return nil, fmt.Errorf("unknown env %q", kind)
	}
	install(b.env, b.rec)
	return b, nil
}

func buildCtx(c map[string]sb.V) map[string]stick.Value {
	if c == nil {
		return nil
	}
	out := make(map[string]stick.Value, len(c))
	for k, v := range c {
		if v.K != "wrapof" {
			out[k] = Build(v)
		}
	}
	// "wrapof": the very object held by another entry (named by S), marked
	// safe for further types - the way a user filter re-marks a value it was
	// handed. The entry it wraps must come out of this untouched.
	for k, v := range c {
		if v.K == "wrapof" {
			out[k] = stick.NewSafeValue(out[v.S], v.TS...)
		}
	}
	return out
}

func unwrapSafe(v stick.Value) stick.Value {
	for i := 0; i < 64; i++ {
		sv, ok := v.(stick.SafeValue)
		if !ok || isNilPtr(v) {
			break
		}
		v = sv.Value()
	}
	return v
}

// ownText is the text a value prints as: the harness' own rule, except for
// values of the interface types, where the coercion rules (C15, not the
// escaping properties) decide which interface wins.
func ownText(val stick.Value) string {
	switch inner := unwrapSafe(val).(type) {
	case BoolStringer, *BoolStringer, OnlyBoolean, OnlyNumber:
		return stick.CoerceString(inner)
	}
	return OwnStr(val)
}

// readerLoader is a user-defined Loader (memory semantics: unknown names are
// errors) whose templates are read through readers that use the latitude of the
// io.Reader contract.
type readerLoader struct {
	tpls map[string]string
	mode string
}

type readerTemplate struct {
	name, src, mode string
}

func (t *readerTemplate) Name() string { return t.name }
func (t *readerTemplate) Contents() io.Reader {
	return &oddReader{src: []byte(t.src), mode: t.mode}
}

func (l *readerLoader) Load(name string) (stick.Template, error) {
	src, ok := l.tpls[name]
	if !ok {
		return nil, os.ErrNotExist
	}
	return &readerTemplate{name: name, src: src, mode: l.mode}, nil
}

// oddReader: dataeof returns the final bytes together with io.EOF; onebyte
// returns one byte per call; chunk7 seven; zero-reads interleaves (0, nil)
// results, which the contract allows.
type oddReader struct {
	src   []byte
	mode  string
	calls int
}

func (r *oddReader) Read(p []byte) (int, error) {
	r.calls++
	if len(p) == 0 {
		return 0, nil
	}
	max := len(p)
	switch r.mode {
	case "onebyte":
		max = 1
	case "chunk7":
		max = 7
	case "zero-reads":
		if r.calls%2 == 0 {
			return 0, nil
		}
		max = 5
	}
	if max > len(p) {
		max = len(p)
	}
	n := copy(p[:max], r.src)
	r.src = r.src[n:]
	if len(r.src) == 0 {
		if r.mode == "dataeof" || n == 0 {
			return n, io.EOF
		}
	}
	return n, nil
}

func foreignExtension() {
	ext := twig.NewAutoEscapeExtension()
	for k := range ext.Escapers {
		ext.Escapers[k] = func(string) string { return "<<FOREIGN ESCAPER>>" }
	}
	delete(ext.Escapers, "js")
	ext.Escapers["txt"] = func(string) string { return "<<FOREIGN TXT>>" }
}
