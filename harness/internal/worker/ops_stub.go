package worker

import "verif/internal/sb"

func opFilterGrid(req *sb.Req) *sb.Resp { return &sb.Resp{Status: "infra", Err: "not implemented"} }
