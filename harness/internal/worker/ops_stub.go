package worker

import "verif/internal/sb"

func opConc(req *sb.Req) *sb.Resp       { return &sb.Resp{Status: "infra", Err: "not implemented"} }
func opLeak(req *sb.Req) *sb.Resp       { return &sb.Resp{Status: "infra", Err: "not implemented"} }
func opFilterGrid(req *sb.Req) *sb.Resp { return &sb.Resp{Status: "infra", Err: "not implemented"} }
