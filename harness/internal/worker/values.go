package worker

import (
	"net/url"
	"fmt"
	"math"
	"reflect"
	"sort"
	"strconv"
	"strings"
	"time"

	"github.com/shopspring/decimal"
	"github.com/tyler-sommer/stick"

	"verif/internal/sb"
)

// ---- menagerie types ------------------------------------------------------

// Person is the struct used for attribute access: exported, unexported and
// embedded fields, value and pointer receiver methods of several arities.
type Person struct {
	Name  string
	Age   int
	priv  string
	Tags  []string
	Inner *Person
	M     map[string]int
}

func (p Person) Greet(s string) string      { return s + p.Name }
func (p *Person) PtrName(s string) string   { return s + "*" + p.Name }
func (p Person) Sum(a, b int) int           { return a + b + p.Age }
func (p Person) Nothing()                   {}
func (p Person) Two() (int, error)          { return 1, nil }
func (p Person) Var(xs ...string) string    { return strings.Join(xs, ",") + "!" }
func (p Person) Join(sep string, parts ...string) string {
	return strings.Join(parts, sep) + "."
}
func (p Person) Any(v interface{}) string   { return "any:" + Repr(v) }
func (p Person) Zero() string               { return "zero:" + p.Name }
func (p Person) F64(f float64) float64      { return f * 2 }
func (p Person) Flag(b bool) string         { return fmt.Sprint(b) }
func (p Person) Self() Person               { return p }
func (p Person) unexported(s string) string { return s }

// Embedder embeds Person.
type Embedder struct {
	Person
	Extra string
}

// Level is an enumeration with a String method, as stringer generates them.
type Level int

func (l Level) String() string { return "level-" + strconv.Itoa(int(l)) }

// Enumerations and measures over the other numeric kinds and over bool, each
// with a String method.
type (
	ULevel   uint8
	U64Level uint64
	FLevel32 float32
	FLevel64 float64
	BFlag    bool
)

func (l ULevel) String() string   { return "ulevel-" + strconv.Itoa(int(l)) }
func (l U64Level) String() string { return "u64level-" + strconv.FormatUint(uint64(l), 10) }
func (l FLevel32) String() string { return "f32level" }
func (l FLevel64) String() string { return "f64level" }
func (b BFlag) String() string {
	if b {
		return "on"
	}
	return "off"
}

// HLevel and HRatio are numbers whose String method returns markup.
type HLevel int
type HRatio float64

func (l HLevel) String() string { return `R&D <labs> "q" 'x';` + strconv.Itoa(int(l)) }
func (l HRatio) String() string { return `<i>&half;</i>'` }

// Next is a method of a defined integer type.
func (l Level) Next(by int) Level { return l + Level(by) }

// Defined types over the basic kinds.
type (
	NInt     int
	NInt64   int64
	NUint8   uint8
	NFloat64 float64
	NBool    bool
)

// Meta and Page: Page promotes Meta's fields and methods through an embedded
// pointer that is nil.
type Meta struct{ Description string }

func (m Meta) Describe() string { return "d:" + m.Description }

type Page struct {
	*Meta
	Title string
}

// Node is a struct that is part of a pointer cycle.
type Node struct {
	Name   string
	Parent *Node
	Kids   []*Node
}

// Slot takes an unsigned parameter: negative and oversized numbers cannot be used.
func (p Person) Slot(n uint8) string { return "slot:" + strconv.Itoa(int(n)) }

// OnlyStringer implements exactly fmt.Stringer.
type OnlyStringer struct{ S string }

func (o OnlyStringer) String() string { return o.S }

// PtrStringer implements Stringer with a nil-safe pointer receiver.
type PtrStringer struct{ S string }

func (o *PtrStringer) String() string {
	if o == nil {
		return "<nil-stringer>"
	}
	return o.S
}

// OnlyNumber implements exactly stick.Number.
type OnlyNumber struct{ N float64 }

func (o OnlyNumber) Number() float64 { return o.N }

// OnlyBoolean implements exactly stick.Boolean.
type OnlyBoolean struct{ B bool }

func (o OnlyBoolean) Boolean() bool { return o.B }

// BoolStringer implements stick.Boolean and fmt.Stringer at once (an
// "optional text"): which of the two wins when it is printed is stick's
// business, that the printed text is escaped is not.
type BoolStringer struct {
	Text  string
	Valid bool
}

func (o BoolStringer) Boolean() bool  { return o.Valid }
func (o BoolStringer) String() string { return o.Text }

// CustomSafe is a SafeValue implementation that is not the library's own.
type CustomSafe struct {
	V     interface{}
	Types []string
}

func (c CustomSafe) Value() stick.Value { return c.V }
func (c CustomSafe) IsSafe(typ string) bool {
	for _, t := range c.Types {
		if t == typ {
			return true
		}
	}
	return false
}
func (c CustomSafe) SafeFor() []string { return c.Types }

// KStr is a defined string type (map keys and method parameters).
type KStr string

func (p Person) Named(k KStr) string { return "named:" + string(k) }

// Tag has a fixed parameter whose type differs from the variadic element type.
func (p Person) Tag(prefix string, ids ...int) string {
	parts := make([]string, len(ids))
	for i, id := range ids {
		parts[i] = strconv.Itoa(id)
	}
	return prefix + ":" + strings.Join(parts, ",")
}

// Plain implements none of the interfaces.
type Plain struct{ X int }

// ---- building Go values from descriptions --------------------------------

// Build converts a description into the Go value handed to stick.
func Build(v sb.V) interface{} {
	k := v.K
	switch k {
	case "", "null":
		return nil
	case "bool":
		return v.B
	case "num", "float64":
		return v.N
	case "float32":
		return float32(v.N)
	case "int":
		return int(v.N)
	case "int8":
		return int8(v.N)
	case "int16":
		return int16(v.N)
	case "int32":
		return int32(v.N)
	case "int64":
		if v.S != "" {
			n, _ := strconv.ParseInt(v.S, 10, 64)
			return n
		}
		return int64(v.N)
	case "uint":
		return uint(v.N)
	case "uint8":
		return uint8(v.N)
	case "uint16":
		return uint16(v.N)
	case "uint32":
		return uint32(v.N)
	case "uint64":
		if v.S != "" {
			n, _ := strconv.ParseUint(v.S, 10, 64)
			return n
		}
		return uint64(v.N)
	case "fbits":
		// float64 given by its bit pattern in S (exact, survives JSON)
		u, _ := strconv.ParseUint(v.S, 16, 64)
		return math.Float64frombits(u)
	case "str":
		return v.S
	case "arr":
		out := make([]stick.Value, len(v.E))
		for i, e := range v.E {
			out[i] = Build(e)
		}
		return out
	case "arrcap":
		// a list built with append: room left behind its last element
		out := make([]stick.Value, 0, len(v.E)+8)
		for _, e := range v.E {
			out = append(out, Build(e))
		}
		return out
	case "hash":
		out := make(map[string]stick.Value, len(v.E))
		for i, e := range v.E {
			out[v.KS[i]] = Build(e)
		}
		return out
	case "ptr":
		inner := Build(v.E[0])
		if inner == nil {
			var p *interface{}
			return p
		}
		rv := reflect.ValueOf(inner)
		p := reflect.New(rv.Type())
		p.Elem().Set(rv)
		return p.Interface()
	case "safe":
		return stick.NewSafeValue(Build(v.E[0]), v.TS...)
	case "customsafe":
		return CustomSafe{V: Build(v.E[0]), Types: v.TS}
	case "stringer":
		return OnlyStringer{v.S}
	case "ptrstringer":
		return &PtrStringer{v.S}
	case "number":
		return OnlyNumber{v.N}
	case "boolean":
		return OnlyBoolean{v.B}
	case "boolstringer":
		return BoolStringer{v.S, v.B}
	case "nan":
		return math.NaN()
	case "named:int":
		return NInt(int(v.N))
	case "named:int64":
		return NInt64(int64(v.N))
	case "named:uint8":
		return NUint8(uint8(v.N))
	case "named:float64":
		return NFloat64(v.N)
	case "named:str":
		return KStr(v.S)
	case "named:bool":
		return NBool(v.B)
	case "uintptr":
		return uintptr(v.N)
	case "named:month":
		return time.Month(int(v.N))
	case "named:duration":
		return time.Duration(int64(v.N))
	case "named:level":
		return Level(int(v.N))
	case "named:hlevel":
		return HLevel(int(v.N))
	case "named:hratio":
		return HRatio(v.N)
	case "named:ulevel":
		return ULevel(uint8(v.N))
	case "named:u64level":
		return U64Level(uint64(v.N))
	case "named:flevel32":
		return FLevel32(float32(v.N))
	case "named:flevel64":
		return FLevel64(v.N)
	case "named:bflag":
		return BFlag(v.B)
	case "embednil":
		return Page{Title: v.S}
	case "embednil:stringer":
		return NilEmbStringer{X: 1}
	case "embednil:number":
		return NilEmbNumber{X: 1}
	case "embednil:boolean":
		return NilEmbBoolean{X: 1}
	case "embednil:iface":
		return NilEmbIface{X: 1}
	case "embednil:safe":
		return NilEmbSafe{X: 1}
	case "aliastables":
		// one list whose only element is a table of rows ...
		return []stick.Value{aliasRows}
	case "sharedrows":
		// one row object reached twice in one list
		row := []stick.Value{1.0, 2.0}
		return []stick.Value{row, row}
	case "sharedrows2":
		// ... and through two different rows that share it
		row := []stick.Value{1.0, 2.0}
		return []stick.Value{[]stick.Value{row, 1.0}, []stick.Value{row, 2.0}}
	case "aliasrows":
		return aliasRows
	case "aliashead":
		// ... and the first row as a slice: same address and length as the
		// table, another list altogether
		return aliasRows[0][:]
	case "dagarr":
		// the same sharing through pointers to arrays
		var g stick.Value = &[1]stick.Value{"leaf"}
		for i := 0; i < 40; i++ {
			g = &[2]stick.Value{g, g}
		}
		return g
	case "cyclicarr":
		a := &[1]stick.Value{}
		a[0] = a
		return a
	case "embednil:deep":
		// the nil pointer sits ten levels of embedding down
		return Lv9{}
	case "embednil:time":
		// String, MarshalJSON, ... are promoted from the nil *time.Time
		return NilEmbTime{Name: "launch"}
	case "dag":
		// 40 levels of lists that share their sub-lists: small in memory, 2^40
		// paths for a comparison that does not remember what it has compared
		var g stick.Value = []stick.Value{"leaf"}
		for i := 0; i < 40; i++ {
			g = []stick.Value{g, g}
		}
		return g
	case "funcmap":
		// functions held in a hash, as an application puts helpers in the context
		return map[string]stick.Value{
			"url":  func(s string) string { return "u:" + s },
			"zero": func() int { return 7 },
			"n":    3,
		}
	case "values":
		// a named map type with methods (url.Values)
		return url.Values{"a": {"1", "2"}, "b": {"x"}}
	case "level":
		return Level(int(v.N))
	case "cyclicmap":
		mp := map[string]stick.Value{"title": "t"}
		mp["self"] = mp
		mp["kids"] = []stick.Value{mp}
		return mp
	case "cyclicnode":
		root := &Node{Name: "root"}
		kid := &Node{Name: "kid", Parent: root}
		root.Kids = []*Node{kid}
		root.Parent = root
		return kid
	case "arrayofany":
		// comparable by its static type, unhashable by its contents
		return [1]interface{}{[]int{1}}
	case "plain":
		return Plain{int(v.N)}
	case "decimal":
		d, err := decimal.NewFromString(v.S)
		if err != nil {
			return decimal.Zero
		}
		return d
	case "time":
		return time.Date(2020, 2, 29, 13, 14, 15, 0, time.UTC)
	case "chan":
		return make(chan int)
	case "func":
		return func() {}
	case "complex":
		return complex(v.N, 1)
	case "person":
		return buildPerson(v)
	case "embedder":
		return Embedder{buildPerson(v), "extra"}
	}
	if strings.HasPrefix(k, "int64x:") {
		n, _ := strconv.ParseInt(v.S, 10, 64)
		if k == "int64x:int" {
			return int(n)
		}
		return n
	}
	if strings.HasPrefix(k, "uint64x:") {
		n, _ := strconv.ParseUint(v.S, 10, 64)
		if k == "uint64x:uint" {
			return uint(n)
		}
		return n
	}
	if strings.HasPrefix(k, "nilptr:") {
		switch k[7:] {
		case "person":
			return (*Person)(nil)
		case "int":
			return (*int)(nil)
		case "slice":
			return (*[]int)(nil)
		case "map":
			return (*map[string]int)(nil)
		case "plain":
			return (*Plain)(nil)
		case "string":
			return (*string)(nil)
		case "stringer":
			return (*OnlyStringer)(nil) // String has a value receiver
		case "number":
			return (*OnlyNumber)(nil)
		case "boolean":
			return (*OnlyBoolean)(nil)
		case "decimal":
			return (*decimal.Decimal)(nil)
		case "customsafe":
			return (*CustomSafe)(nil) // Value and IsSafe have value receivers
		case "promoted-stringer":
			// the method belongs to a struct embedded by value and has a
			// pointer receiver: reaching it through the nil pointer fails in
			// the compiler's own wrapper
			return (*PromotedStringer)(nil)
		case "promoted-number":
			return (*PromotedNumber)(nil)
		case "promoted-boolean":
			return (*PromotedBoolean)(nil)
		}
		return (*Plain)(nil)
	}
	if strings.HasPrefix(k, "nilslice:") {
		switch k[9:] {
		case "int":
			return []int(nil)
		case "value":
			return []stick.Value(nil)
		}
		return []string(nil)
	}
	if strings.HasPrefix(k, "nilmap:") {
		switch k[7:] {
		case "value":
			return map[string]stick.Value(nil)
		case "int":
			return map[int]string(nil)
		}
		return map[string]string(nil)
	}
	if strings.HasPrefix(k, "slice:") || strings.HasPrefix(k, "array:") {
		et := elemType(k[6:])
		var rv reflect.Value
		if strings.HasPrefix(k, "slice:") {
			rv = reflect.MakeSlice(reflect.SliceOf(et), len(v.E), len(v.E))
		} else {
			rv = reflect.New(reflect.ArrayOf(len(v.E), et)).Elem()
		}
		for i, e := range v.E {
			setConv(rv.Index(i), Build(e))
		}
		return rv.Interface()
	}
	if strings.HasPrefix(k, "map:") {
		parts := strings.SplitN(k[4:], ":", 2)
		kt, vt := elemType(parts[0]), elemType(parts[1])
		rv := reflect.MakeMapWithSize(reflect.MapOf(kt, vt), len(v.E))
		for i, e := range v.E {
			kk := reflect.New(kt).Elem()
			setConv(kk, Build(v.KV[i]))
			vv := reflect.New(vt).Elem()
			setConv(vv, Build(e))
			rv.SetMapIndex(kk, vv)
		}
		return rv.Interface()
	}
	panic("worker: unknown value kind " + k)
}

func buildPerson(v sb.V) Person {
	p := Person{Name: v.S, Age: int(v.N), priv: "secret", Tags: []string{"t0", "t1"}, M: map[string]int{"one": 1}}
	if len(v.E) > 0 {
		in := buildPerson(v.E[0])
		p.Inner = &in
	}
	return p
}

var ifaceType = reflect.TypeOf((*interface{})(nil)).Elem()

func elemType(t string) reflect.Type {
	switch t {
	case "int":
		return reflect.TypeOf(int(0))
	case "int8":
		return reflect.TypeOf(int8(0))
	case "int16":
		return reflect.TypeOf(int16(0))
	case "int32":
		return reflect.TypeOf(int32(0))
	case "int64":
		return reflect.TypeOf(int64(0))
	case "uint":
		return reflect.TypeOf(uint(0))
	case "uint8":
		return reflect.TypeOf(uint8(0))
	case "uint16":
		return reflect.TypeOf(uint16(0))
	case "uint32":
		return reflect.TypeOf(uint32(0))
	case "uint64":
		return reflect.TypeOf(uint64(0))
	case "float32":
		return reflect.TypeOf(float32(0))
	case "float64", "num":
		return reflect.TypeOf(float64(0))
	case "str", "string":
		return reflect.TypeOf("")
	case "kstr":
		return reflect.TypeOf(KStr(""))
	case "bool":
		return reflect.TypeOf(false)
	case "person":
		return reflect.TypeOf(Person{})
	case "pperson":
		return reflect.TypeOf(&Person{})
	case "slice:int":
		return reflect.TypeOf([]int{})
	case "any", "value", "iface":
		return ifaceType
	}
	panic("worker: unknown element type " + t)
}

// setConv stores x into dst, converting numeric kinds as needed.
func setConv(dst reflect.Value, x interface{}) {
	if x == nil {
		dst.Set(reflect.Zero(dst.Type()))
		return
	}
	rv := reflect.ValueOf(x)
	if rv.Type().AssignableTo(dst.Type()) {
		dst.Set(rv)
		return
	}
	if rv.Kind() == reflect.String && dst.Kind() == reflect.String {
		dst.Set(rv.Convert(dst.Type()))
		return
	}
	if rv.Type().ConvertibleTo(dst.Type()) && rv.Kind() != reflect.String && dst.Kind() != reflect.String {
		dst.Set(rv.Convert(dst.Type()))
		return
	}
	panic(fmt.Sprintf("worker: cannot store %T into %s", x, dst.Type()))
}

// ---- canonical representation of observed values -------------------------

// FmtNum is the canonical number format of the harness.
func FmtNum(f float64) string {
	// (integral values positionally, whichever Go kind carried them: an int
	// of a million and a float64 of a million are the same number)
	if f == math.Trunc(f) && math.Abs(f) < 1e15 {
		return strconv.FormatFloat(f, 'f', -1, 64)
	}
	return strconv.FormatFloat(f, 'g', -1, 64)
}

// Repr renders any value observed in a callback in the harness' canonical
// form. Go carrier kinds are deliberately erased (every number is a number).
func Repr(v interface{}) string {
	var b strings.Builder
	repr(&b, v, 0)
	return b.String()
}

func repr(b *strings.Builder, v interface{}, depth int) {
	if depth > 8 {
		b.WriteString("?deep")
		return
	}
	switch x := v.(type) {
	case nil:
		b.WriteString("~")
		return
	case bool:
		if x {
			b.WriteString("T")
		} else {
			b.WriteString("F")
		}
		return
	case string:
		b.WriteString(strconv.Quote(x))
		return
	case stick.SafeValue:
		if isNilPtr(v) {
			b.WriteString("?nilptr")
			return
		}
		ts := x.SafeFor()
		sort.Strings(ts)
		b.WriteString("!safe[" + strings.Join(ts, ",") + "]:")
		repr(b, x.Value(), depth+1)
		return
	}
	rv := reflect.ValueOf(v)
	switch rv.Kind() {
	case reflect.Int, reflect.Int8, reflect.Int16, reflect.Int32, reflect.Int64:
		b.WriteString("#" + FmtNum(float64(rv.Int())))
	case reflect.Uint, reflect.Uint8, reflect.Uint16, reflect.Uint32, reflect.Uint64:
		b.WriteString("#" + FmtNum(float64(rv.Uint())))
	case reflect.Float32, reflect.Float64:
		b.WriteString("#" + FmtNum(rv.Float()))
	case reflect.Slice, reflect.Array:
		b.WriteString("[")
		for i := 0; i < rv.Len(); i++ {
			if i > 0 {
				b.WriteString(",")
			}
			repr(b, rv.Index(i).Interface(), depth+1)
		}
		b.WriteString("]")
	case reflect.Map:
		var ks []string
		m := map[string]reflect.Value{}
		for it := rv.MapRange(); it.Next(); {
			k := fmt.Sprint(it.Key().Interface())
			ks = append(ks, k)
			m[k] = it.Value()
		}
		sort.Strings(ks)
		b.WriteString("{")
		for i, k := range ks {
			if i > 0 {
				b.WriteString(",")
			}
			b.WriteString(strconv.Quote(k) + ":")
			repr(b, m[k].Interface(), depth+1)
		}
		b.WriteString("}")
	case reflect.Ptr:
		if rv.IsNil() {
			b.WriteString("?nilptr")
		} else {
			b.WriteString("&")
			repr(b, rv.Elem().Interface(), depth+1)
		}
	default:
		b.WriteString("?" + rv.Type().String())
	}
}

// OwnStr is the harness' own stringification used by the recording filters
// (it must not call stick's coercions). It is defined for the kinds the model
// produces: strings, numbers in the agreement region, booleans and null.
func OwnStr(v interface{}) string {
	switch x := v.(type) {
	case nil:
		return ""
	case string:
		return x
	case bool:
		if x {
			return "1"
		}
		return ""
	case stick.SafeValue:
		if isNilPtr(v) {
			return ""
		}
		return OwnStr(x.Value())
	case fmt.Stringer:
		return x.String()
	}
	rv := reflect.ValueOf(v)
	switch rv.Kind() {
	case reflect.Int, reflect.Int8, reflect.Int16, reflect.Int32, reflect.Int64:
		return strconv.FormatInt(rv.Int(), 10)
	case reflect.Uint, reflect.Uint8, reflect.Uint16, reflect.Uint32, reflect.Uint64:
		return strconv.FormatUint(rv.Uint(), 10)
	case reflect.Float32, reflect.Float64:
		return FmtNum(rv.Float())
	}
	return Repr(v)
}

// OwnNum converts numeric Go values to float64 without stick's coercions.
func OwnNum(v interface{}) (float64, bool) {
	if v == nil {
		return 0, false
	}
	rv := reflect.ValueOf(v)
	switch rv.Kind() {
	case reflect.Int, reflect.Int8, reflect.Int16, reflect.Int32, reflect.Int64:
		return float64(rv.Int()), true
	case reflect.Uint, reflect.Uint8, reflect.Uint16, reflect.Uint32, reflect.Uint64:
		return float64(rv.Uint()), true
	case reflect.Float32, reflect.Float64:
		return rv.Float(), true
	}
	return 0, false
}

// isNilPtr reports whether the methods of v cannot be called: a nil pointer,
// or one of the menagerie's structs that embed a nil pointer or interface.
func isNilPtr(v interface{}) bool {
	switch v.(type) {
	case NilEmbStringer, NilEmbNumber, NilEmbBoolean, NilEmbIface, NilEmbSafe, NilEmbTime, Lv9, *Lv9,
		*NilEmbStringer, *NilEmbNumber, *NilEmbBoolean, *NilEmbIface, *NilEmbSafe, *NilEmbTime:
		return true
	}
	rv := reflect.ValueOf(v)
	return rv.Kind() == reflect.Ptr && rv.IsNil()
}

type baseStringer struct{ s string }

func (b *baseStringer) String() string { return b.s }

type baseNumber struct{ n float64 }

func (b *baseNumber) Number() float64 { return b.n }

type baseBoolean struct{ b bool }

func (b *baseBoolean) Boolean() bool { return b.b }

// PromotedStringer is a Stringer through its pointer only, by a method
// promoted from a struct it embeds by value.
type PromotedStringer struct {
	baseStringer
	X int
}

// PromotedNumber is the same for Number.
type PromotedNumber struct {
	X int
	baseNumber
}

// PromotedBoolean is the same for Boolean.
type PromotedBoolean struct {
	X int
	baseBoolean
}

// Struct values (not nil themselves) whose Stringer / Number / Boolean /
// SafeValue methods are promoted from an embedded pointer or interface that
// is nil: the call fails in the compiler's wrapper, before any method runs.
type NilEmbStringer struct {
	*OnlyStringer
	X int
}

type NilEmbNumber struct {
	X int
	*OnlyNumber
}

type NilEmbBoolean struct {
	*OnlyBoolean
	X int
}

type NilEmbIface struct {
	fmt.Stringer
	X int
}

type NilEmbSafe struct {
	stick.SafeValue
	X int
}

type NilEmbTime struct {
	*time.Time
	Name string
}

var aliasRows = [][2]int{{1, 2}, {3, 4}}

type Lv0 struct{ *OnlyStringer }
type Lv1 struct{ Lv0 }
type Lv2 struct{ Lv1 }
type Lv3 struct{ Lv2 }
type Lv4 struct{ Lv3 }
type Lv5 struct{ Lv4 }
type Lv6 struct{ Lv5 }
type Lv7 struct{ Lv6 }
type Lv8 struct{ Lv7 }
type Lv9 struct{ Lv8 }
