//go:build race

package worker

const raceEnabled = true
