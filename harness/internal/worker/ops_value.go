package worker

import (
	"fmt"
	"reflect"
	"strconv"
	"strings"

	"github.com/tyler-sommer/stick"
	"github.com/tyler-sommer/stick/twig/escape"
	"github.com/tyler-sommer/stick/twig/filter"

	"verif/internal/sb"
)

func escaper(name string) func(string) string {
	switch name {
	case "html":
		return escape.HTML
	case "html_attr":
		return escape.HTMLAttribute
	case "js":
		return escape.JS
	case "css":
		return escape.CSS
	case "url":
		return escape.URLQueryParam
	}
	return nil
}

// opEscape applies escaper req.Name to every string of req.Strs.
func opEscape(req *sb.Req) *sb.Resp {
	f := escaper(req.Name)
	if f == nil {
		return &sb.Resp{Status: "infra", Err: "unknown escaper " + req.Name}
	}
	resp := &sb.Resp{Status: "ok", Strs: make([]string, len(req.Strs))}
	for i, s := range req.Strs {
		resp.Strs[i] = f(s)
	}
	return resp
}

// opCoerce applies the three coercions to every value.
func opCoerce(req *sb.Req) *sb.Resp {
	resp := &sb.Resp{Status: "ok", Items: make([]sb.Item, len(req.Vals))}
	for i, v := range req.Vals {
		v := v
		resp.Items[i] = guard(func() sb.Item {
			gv := Build(v)
			it := sb.Item{Status: "ok"}
			it.S = stick.CoerceString(gv)
			it.NS = FmtNum(stick.CoerceNumber(gv))
			it.B = stick.CoerceBool(gv)
			it.Msg = FmtNum(stick.CoerceNumber(stick.CoerceString(gv)))
			if sv, ok := gv.(stick.SafeValue); ok && !isNilPtr(gv) {
				ts := sv.SafeFor()
				it.L = ts
				it.S2 = Repr(sv.Value())
			}
			return it
		})
	}
	return resp
}

func opGetAttr(req *sb.Req) *sb.Resp {
	resp := &sb.Resp{Status: "ok", Items: make([]sb.Item, len(req.Vals))}
	for i := range req.Vals {
		i := i
		resp.Items[i] = guard(func() sb.Item {
			c := Build(req.Vals[i])
			k := Build(req.Keys[i])
			var args []stick.Value
			if i < len(req.Args) {
				for _, a := range req.Args[i] {
					args = append(args, Build(a))
				}
			}
			v, err := stick.GetAttr(c, k, args...)
			if err != nil {
				return sb.Item{Status: "error", Msg: err.Error()}
			}
			return sb.Item{Status: "ok", S: Repr(v)}
		})
	}
	return resp
}

func opIterate(req *sb.Req) *sb.Resp {
	resp := &sb.Resp{Status: "ok", Items: make([]sb.Item, len(req.Vals))}
	for i := range req.Vals {
		i := i
		resp.Items[i] = guard(func() sb.Item {
			c := Build(req.Vals[i])
			it := sb.Item{Status: "ok"}
			grow, _ := strconv.Atoi(req.Extra["grow"])
			n, err := stick.Iterate(c, func(k, v stick.Value, l stick.Loop) (bool, error) {
				it.L = append(it.L, fmt.Sprintf("%s=%s|%d,%d,%d,%d,%v,%v,%d", Repr(k), Repr(v),
					l.Index, l.Index0, l.Revindex, l.Revindex0, l.First, l.Last, l.Length))
				if grow > 0 && len(it.L) == grow {
					// the loop body adds entries to the map it is iterating
					// (as the merge filter does to its operand)
					target := c
					if p, ok := target.(*map[string]stick.Value); ok && p != nil {
						target = *p
					}
					if mp, ok := target.(map[string]stick.Value); ok {
						for j := 0; j < 12; j++ {
							mp[fmt.Sprintf("zz-added-%d", j)] = j
						}
					}
					// ... or shortens the list it is iterating through a pointer
					if rp := reflect.ValueOf(c); rp.Kind() == reflect.Ptr && !rp.IsNil() && rp.Elem().Kind() == reflect.Slice {
						rp.Elem().Set(rp.Elem().Slice(0, rp.Elem().Len()/2))
					}
				}
				return len(it.L) > 200, nil
			})
			if err != nil {
				it.Status = "error"
				it.Msg = err.Error()
			}
			it.N = float64(n)
			ln, lerr := stick.Len(c)
			parts := []string{fmt.Sprintf("len=%d,%v", ln, lerr != nil),
				fmt.Sprintf("iterable=%v", stick.IsIterable(c)),
				fmt.Sprintf("array=%v", stick.IsArray(c)),
				fmt.Sprintf("map=%v", stick.IsMap(c)),
				// the Twig environment's length filter on the same value
				fmt.Sprintf("lengthfilter=%s", Repr(filter.TwigFilters()["length"](nil, c)))}
			// containment of every key probe
			if i < len(req.Args) {
				for _, a := range req.Args[i] {
					ok, cerr := stick.Contains(c, Build(a))
					parts = append(parts, fmt.Sprintf("contains=%v,%v", ok, cerr != nil))
				}
			}
			it.S = strings.Join(parts, ";")
			return it
		})
	}
	return resp
}
