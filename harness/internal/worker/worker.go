// Package worker is the sandboxed side of the harness: it is the only code
// that calls into stick.
package worker

import (
	"bufio"
	"encoding/binary"
	"bytes"
	"encoding/gob"
	"fmt"
	"io"
	"os"
	"reflect"
	"runtime"
	"runtime/debug"
	"runtime/metrics"
	"strings"
	"syscall"
	"time"

	"github.com/tyler-sommer/stick/parse"

	"verif/internal/sb"
)

const heapLimit = 1536 << 20

// Main is the worker entry point: it serves requests until stdin closes.
func Main() {
	debug.SetMaxStack(64 << 20)
	if !raceEnabled {
		lim := syscall.Rlimit{Cur: 4 << 30, Max: 4 << 30}
		syscall.Setrlimit(syscall.RLIMIT_AS, &lim)
	}
	if runtime.GOMAXPROCS(0) < 2 {
		runtime.GOMAXPROCS(2)
	}
	go heapWatch()

	in := bufio.NewReaderSize(os.Stdin, 1<<16)
	out := bufio.NewWriterSize(os.Stdout, 1<<16)
	for {
		var hdr [4]byte
		if _, err := io.ReadFull(in, hdr[:]); err != nil {
			return
		}
		n := binary.LittleEndian.Uint32(hdr[:])
		buf := make([]byte, n)
		if _, err := io.ReadFull(in, buf); err != nil {
			return
		}
		var req sb.Req
		if err := gob.NewDecoder(bytes.NewReader(buf)).Decode(&req); err != nil {
			fmt.Fprintln(os.Stderr, "worker: bad request:", err)
			os.Exit(3)
		}
		resp := serve(&req)
		var pbuf bytes.Buffer
		if err := gob.NewEncoder(&pbuf).Encode(resp); err != nil {
			pbuf.Reset()
			gob.NewEncoder(&pbuf).Encode(&sb.Resp{Status: "infra", Err: "marshal response: " + err.Error()})
		}
		payload := pbuf.Bytes()
		binary.LittleEndian.PutUint32(hdr[:], uint32(len(payload)))
		out.Write(hdr[:])
		out.Write(payload)
		out.Flush()
	}
}

func heapWatch() {
	samples := []metrics.Sample{{Name: "/memory/classes/heap/objects:bytes"}}
	for {
		time.Sleep(25 * time.Millisecond)
		metrics.Read(samples)
		if samples[0].Value.Kind() == metrics.KindUint64 && samples[0].Value.Uint64() > heapLimit {
			fmt.Fprintln(os.Stderr, "VERIF-OOM heap limit exceeded")
			dumpStacks()
			os.Exit(sb.ExitOOM)
		}
	}
}

func dumpStacks() {
	buf := make([]byte, 1<<20)
	n := runtime.Stack(buf, true)
	os.Stderr.Write(buf[:n])
}

func serve(req *sb.Req) (resp *sb.Resp) {
	dl := req.DeadlineMs
	if dl == 0 {
		dl = sb.DefaultDeadlineMs
	}
	wd := time.AfterFunc(time.Duration(dl)*time.Millisecond, func() {
		fmt.Fprintln(os.Stderr, "VERIF-HANG deadline exceeded")
		dumpStacks()
		os.Exit(sb.ExitHang)
	})
	defer wd.Stop()
	defer func() {
		if p := recover(); p != nil {
			st := string(debug.Stack())
			resp = &sb.Resp{Status: "panic", PanicMsg: fmt.Sprint(p), Stack: st, Site: panicSite(st)}
		}
	}()
	switch req.Op {
	case "ping":
		return &sb.Resp{Status: "ok"}
	case "parse":
		return opParse(req)
	case "sexpr":
		return opSexpr(req)
	case "parsebatch":
		return opParseBatch(req)
	case "exec":
		return opExec(req)
	case "escape":
		return opEscape(req)
	case "coerce":
		return opCoerce(req)
	case "getattr":
		return opGetAttr(req)
	case "iterate":
		return opIterate(req)
	case "conc":
		return opConc(req)
	case "leak":
		return opLeak(req)
	case "filtergrid":
		return opFilterGrid(req)
	}
	return &sb.Resp{Status: "infra", Err: "unknown op " + req.Op}
}

// panicSite returns the innermost stick frame below the panic.
func panicSite(stack string) string {
	// Skip everything up to the runtime panic frames.
	i := strings.LastIndex(stack, "panic(")
	if i >= 0 {
		stack = stack[i:]
	}
	return sb.StickFrame(stack)
}

// guard runs f and converts a panic into an Item.
func guard(f func() sb.Item) (it sb.Item) {
	defer func() {
		if p := recover(); p != nil {
			st := string(debug.Stack())
			it = sb.Item{Status: "panic", Msg: fmt.Sprint(p), Site: panicSite(st)}
		}
	}()
	return f()
}

// ---- parse ------------------------------------------------------------------

func fillErr(resp *sb.Resp, err error) {
	resp.Status = "error"
	resp.Err = err.Error()
	resp.ErrType = fmt.Sprintf("%T", err)
	if p, ok := err.(interface{ Start() parse.Pos }); ok {
		pos := p.Start()
		resp.ErrHas = true
		resp.ErrLine, resp.ErrOff = pos.Line, pos.Offset
	}
	if n, ok := err.(interface{ Name() string }); ok {
		resp.ErrName = n.Name()
	}
}

func opParse(req *sb.Req) *sb.Resp {
	resp := &sb.Resp{Status: "ok"}
	var tree *parse.Tree
	var err error
	if req.Env == "raw" {
		tree, err = parse.Parse(req.Entry)
	} else {
		b, e := buildEnv(req.Env, req.Loader, req.Templates, req.LoadFailAt, 0)
		if e != nil {
			return &sb.Resp{Status: "infra", Err: e.Error()}
		}
		defer b.cleanup()
		tree, err = b.env.Parse(req.Entry)
	}
	if err != nil {
		fillErr(resp, err)
		return resp
	}
	if tree == nil || tree.Root() == nil {
		resp.Status = "panic"
		resp.PanicMsg = "Parse returned neither tree nor error"
		return resp
	}
	// The returned tree must be a usable value.
	resp.TreeStr = clip(tree.Root().String(), 4000)
	walkSeen = map[parse.Node]bool{}
	nodes := walkTree(tree.Root(), 0, nil)
	walkSeen = nil
	if req.WantTree {
		resp.Tree = nodes
	}
	return resp
}

func clip(s string, n int) string {
	if len(s) > n {
		return s[:n]
	}
	return s
}

func isNilNode(n parse.Node) bool {
	if n == nil {
		return true
	}
	rv := reflect.ValueOf(n)
	return rv.Kind() == reflect.Ptr && rv.IsNil()
}

// walkSeen holds the nodes already listed: a block nested inside a block of an
// embed body is reachable both through EmbedNode.Blocks and through the
// enclosing block's body, and is one node.
var walkSeen map[parse.Node]bool

func walkTree(n parse.Node, depth int, out []sb.Node) []sb.Node {
	if isNilNode(n) || depth > 20000 {
		return out
	}
	if walkSeen != nil {
		if _, isBlock := n.(*parse.BlockNode); isBlock {
			if walkSeen[n] {
				return out
			}
			walkSeen[n] = true
		}
	}
	pos := n.Start()
	nd := sb.Node{Kind: strings.TrimPrefix(fmt.Sprintf("%T", n), "*parse."), Line: pos.Line, Off: pos.Offset, Depth: depth}
	switch x := n.(type) {
	case *parse.TextNode:
		nd.Text = x.Data
	case *parse.CommentNode:
		nd.Text = x.Data
	case *parse.NameExpr:
		nd.Text = x.Name
	case *parse.NumberExpr:
		nd.Text = x.Value
	case *parse.StringExpr:
		nd.Text = x.Text
	case *parse.BlockNode:
		nd.Text = x.Name
	case *parse.BinaryExpr:
		nd.Text = x.Op
	case *parse.UnaryExpr:
		nd.Text = x.Op
	case *parse.FuncExpr:
		nd.Text = x.Name
	case *parse.FilterExpr:
		nd.Text = x.Name
	case *parse.TestExpr:
		nd.Text = x.Name
	case *parse.MacroNode:
		nd.Text = x.Name
	case *parse.SetNode:
		nd.Text = x.Name
	case *parse.ForNode:
		nd.Text = x.Key + "," + x.Val
	case *parse.BoolExpr:
		if x.Value {
			nd.Text = "true"
		} else {
			nd.Text = "false"
		}
	}
	out = append(out, nd)
	for _, c := range n.All() {
		out = walkTree(c, depth+1, out)
	}
	return out
}

// ---- exec -------------------------------------------------------------------

func opExec(req *sb.Req) *sb.Resp {
	b, err := buildEnv(req.Env, req.Loader, req.Templates, req.LoadFailAt, req.Yield, req.LoadFailMode)
	if err != nil {
		return &sb.Resp{Status: "infra", Err: err.Error()}
	}
	defer b.cleanup()
	ctx := buildCtx(req.Ctx)
	w := &recWriter{record: req.WantWrites, failAt: req.WriteFailAt, mode: req.WriteMode}
	resp := &sb.Resp{Status: "ok"}
	if req.Safe {
		err = b.env.ExecuteSafe(req.Entry, w, ctx)
	} else {
		err = b.env.Execute(req.Entry, w, ctx)
	}
	if err != nil {
		fillErr(resp, err)
	}
	resp.Out = w.accepted.String()
	resp.Writes = w.writes
	resp.NWrites = w.n
	resp.WritesAfterFail = w.afterFail
	resp.NLoads = b.loader.n
	resp.Calls = b.rec.calls
	return resp
}

// opParseBatch parses many sources; a panic in the calling goroutine is
// reported per item, anything worse kills the worker and the parent falls back
// to single requests.
func opParseBatch(req *sb.Req) *sb.Resp {
	resp := &sb.Resp{Status: "ok", Items: make([]sb.Item, len(req.Strs))}
	for i, src := range req.Strs {
		src := src
		resp.Items[i] = guard(func() sb.Item {
			r := opParse(&sb.Req{Env: req.Env, Entry: src})
			return sb.Item{Status: r.Status, Msg: r.Err}
		})
	}
	return resp
}

// opSexpr parses "{{ e }}" sources and returns the grouping of the printed
// expression as an s-expression with GroupExpr nodes erased.
func opSexpr(req *sb.Req) *sb.Resp {
	resp := &sb.Resp{Status: "ok", Items: make([]sb.Item, len(req.Strs))}
	for i, src := range req.Strs {
		src := src
		resp.Items[i] = guard(func() sb.Item {
			tree, err := parse.Parse(src)
			if err != nil {
				return sb.Item{Status: "error", Msg: err.Error()}
			}
			for _, n := range tree.Root().All() {
				if p, ok := n.(*parse.PrintNode); ok {
					return sb.Item{Status: "ok", S: sexpr(p.X)}
				}
			}
			return sb.Item{Status: "error", Msg: "no print node"}
		})
	}
	return resp
}

func sexpr(e parse.Expr) string {
	switch x := e.(type) {
	case *parse.GroupExpr:
		return sexpr(x.X)
	case *parse.NameExpr:
		return x.Name
	case *parse.NumberExpr:
		return x.Value
	case *parse.StringExpr:
		return "'" + x.Text + "'"
	case *parse.UnaryExpr:
		return "(u" + x.Op + " " + sexpr(x.X) + ")"
	case *parse.BinaryExpr:
		return "(" + x.Op + " " + sexpr(x.Left) + " " + sexpr(x.Right) + ")"
	case *parse.TernaryIfExpr:
		return "(? " + sexpr(x.Cond) + " " + sexpr(x.TrueX) + " " + sexpr(x.FalseX) + ")"
	case *parse.TestExpr:
		return "<" + x.Name + ">"
	case nil:
		return "<nil>"
	}
	return fmt.Sprintf("<%T>", e)
}

// Exec runs an exec request in the calling process without the sandbox's
// panic recovery (used by the native fuzz targets, where the fuzzer provides
// the process isolation).
func Exec(req *sb.Req) *sb.Resp { return opExec(req) }
