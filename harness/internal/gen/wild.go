package gen

import (
	"fmt"

	m "verif/internal/model"
	"verif/internal/sb"
)

// Wild mode: the same grammar, but any operand kind may meet any operator,
// filter, test, attribute access or tag. Used where the oracle is totality.

var allTys = []Ty{TNum, TInt, TStr, TBool, TNull, TArrInt, TArrStr, THash1, THash2}

var wildNames = []string{"i0", "i1", "n0", "n1", "s0", "s1", "b0", "z0", "an0", "as0", "h0", "h1",
	"per", "pp", "np", "mi", "ms", "sl", "em", "nm", "ns", "neg", "zero", "numstr", "big", "nope", "loop", "_self", "x", "y", "cyc", "cn", "en", "nanm", "sl1", "sl2", "nsp"}

// WildCtx is the context of wild programs: the standard variables plus the
// Go value menagerie.
func WildCtx() map[string]sb.V {
	num := func(f float64) sb.V { return sb.V{K: "num", N: f} }
	str := func(s string) sb.V { return sb.V{K: "str", S: s} }
	person := sb.V{K: "person", S: "Bob", N: 30, E: []sb.V{{K: "person", S: "In", N: 2}}}
	return map[string]sb.V{
		"i0": {K: "int", N: 3}, "i1": {K: "uint8", N: 7}, "n0": num(2.5), "n1": num(0.125), "s0": str("abc"), "s1": str(""),
		"b0": {K: "bool", B: true}, "z0": {K: "null"},
		"an0": {K: "arr", E: []sb.V{num(1), num(2), num(3)}}, "as0": {K: "slice:str", E: []sb.V{str("a"), str("b")}},
		"h0": {K: "hash", KS: []string{"k0"}, E: []sb.V{num(1)}}, "h1": {K: "hash", KS: []string{"k0", "k1"}, E: []sb.V{num(1), str("v")}},
		"per": person, "pp": {K: "ptr", E: []sb.V{person}}, "np": {K: "nilptr:person"},
		"mi": {K: "map:int:str", KV: []sb.V{{K: "int", N: 1}, {K: "int", N: 2}}, E: []sb.V{str("one"), str("two")}},
		"ms": {K: "map:str:int", KV: []sb.V{str("a")}, E: []sb.V{num(1)}},
		"sl": {K: "slice:int", E: []sb.V{num(5), num(6)}}, "em": {K: "arr"}, "nm": {K: "nilmap:str"}, "ns": {K: "nilslice:int"},
		"neg": num(-4), "zero": num(0), "numstr": str("12"), "big": num(1e18),
		// data that refers back to itself, a nil embedded pointer, a NaN map key
		// lists marked as safe, lists sharing their sub-lists, a nil pointer to a SafeValue implementation
		"sl1": {K: "safe", TS: []string{"html"}, E: []sb.V{{K: "arr", E: []sb.V{num(1), num(2)}}}},
		"sl2": {K: "safe", TS: []string{"html"}, E: []sb.V{{K: "arr", E: []sb.V{num(1), num(2)}}}},
		"nsp": {K: "nilptr:customsafe"},
		"cyc": {K: "cyclicmap"}, "cn": {K: "cyclicnode"}, "en": {K: "embednil", S: "Home"},
		"nanm": {K: "map:float64:str", KV: []sb.V{{K: "nan"}, num(1)}, E: []sb.V{str("nan"), str("one")}},
	}
}

func (g *G) wildLeaf() *m.E {
	switch g.intn("wleaf", 0, 11) {
	case 0, 1, 2:
		return m.EName(pickS(g, "wname", wildNames))
	case 3:
		return m.ENum(float64(g.intn("wint", 0, 12)))
	case 4:
		return m.ENum(float64(g.intn("wfrac", 0, 40)) / 8)
	case 5:
		return m.EStr(pickS(g, "wstr", []string{"", "a", "abc", "0", "12", "1e3", "-3", "é", "a b", "%", "^(", "[a", "Name", "k0"}))
	case 6:
		return m.EBool(g.flip("wbool"))
	case 7:
		return m.ENull()
	case 8:
		return m.EUn("-", m.ENum(float64(g.intn("wneg", 0, 50))))
	case 9:
		// ranges: both directions, fractional, endpoints within [-50, 50]
		end := func() *m.E {
			switch g.intn("wend", 0, 4) {
			case 0:
				return m.EUn("-", m.ENum(float64(g.intn("r", 0, 50))))
			case 1:
				return m.ENum(float64(g.intn("r", 0, 100)) / 2)
			case 2:
				return m.EName(pickS(g, "rv", []string{"i0", "neg", "zero", "z0", "s0", "n0", "nope", "numstr"}))
			}
			return m.ENum(float64(g.intn("r", 0, 50)))
		}
		if g.intn("wbigrange", 0, 5) == 0 {
			// short ranges far from zero: at and above 2^53 adding 1 no longer
			// changes a float64
			base := pickS(g, "wbase", []float64{9007199254740992, 9007199254740990, 1152921504606846976, 1e18, 9223372036854775808, 4294967296, 16777216})
			lo, hi := m.ENum(base+float64(g.intn("wlo", 0, 4))), m.ENum(base+float64(g.intn("whi", 0, 2048)))
			if g.flip("wbigneg") {
				return m.EBin("..", m.EUn("-", hi), m.EUn("-", lo))
			}
			if g.flip("wbigdesc") {
				return m.EBin("..", hi, lo)
			}
			return m.EBin("..", lo, hi)
		}
		return m.EBin("..", end(), end())
	case 10:
		return m.EArr()
	default:
		return &m.E{K: "hash"}
	}
}

// wildExpr builds an expression with arbitrary operand kinds.
func (g *G) wildExpr(d int) *m.E {
	if d <= 0 {
		return g.wildLeaf()
	}
	sub := func() *m.E { return g.wildExpr(d - 1) }
	switch g.intn("wk", 0, 15) {
	case 0, 1:
		return g.wildLeaf()
	case 2, 3, 4:
		ops := []string{"or", "and", "b-or", "b-xor", "b-and", "==", "!=", "<", "<=", ">", ">=", "not in", "in", "matches",
			"starts with", "ends with", "+", "-", "~", "*", "/", "//", "%", "**"}
		return m.EBin(pickS(g, "wop", ops), sub(), sub())
	case 5:
		return m.EUn(pickS(g, "wu", []string{"not", "-", "+"}), sub())
	case 6:
		return m.ECond(sub(), sub(), sub())
	case 7:
		a := m.EArr()
		for i, n := 0, g.intn("wal", 0, 3); i < n; i++ {
			a.A = append(a.A, sub())
		}
		return a
	case 8:
		h := &m.E{K: "hash"}
		for i, n := 0, g.intn("whl", 0, 3); i < n; i++ {
			switch g.intn("whk", 0, 2) {
			case 0:
				h.KS = append(h.KS, m.EName(pickS(g, "hkn", []string{"a", "k0", "Name"})))
			case 1:
				h.KS = append(h.KS, m.ENum(float64(g.intn("hkn", 0, 3))))
			default:
				h.KS = append(h.KS, m.EStr(pickS(g, "hks", []string{"a", "0", ""})))
			}
			h.A = append(h.A, sub())
		}
		return h
	case 9:
		return m.EAttr(sub(), pickS(g, "wattr", []string{"k0", "k1", "a", "0", "1", "9", "Name", "Age", "priv", "Tags", "Inner", "M", "Zero", "Nothing", "Two", "nope", "length", "index", "parent", "templateName", "Description", "Title", "missing", "self", "title", "Parent", "Kids"}))
	case 10:
		return m.EIdx(sub(), sub())
	case 11:
		// method call with arbitrary arguments
		e := &m.E{K: "mcallx", S: pickS(g, "wmeth", []string{"Greet", "PtrName", "Sum", "Nothing", "Two", "Var", "Join", "Tag", "Any", "Zero", "F64", "Flag", "Self", "unexported", "nope", "k0"}), A: []*m.E{sub()}}
		for i, n := 0, g.intn("wma", 0, 3); i < n; i++ {
			e.A = append(e.A, sub())
		}
		return e
	case 12:
		fns := []string{"id", "cat", "arr", "nul", "add", "truth", "probe", "who", "id", "cat", "arr", "nul", "add", "truth", "probe", "who", "nosuchfn"}
		e := m.ECall(pickS(g, "wfn", fns))
		for i, n := 0, g.intn("wfa", 0, 3); i < n; i++ {
			e.A = append(e.A, sub())
		}
		return e
	case 13:
		fl := g.C.WildFilters
		if len(fl) == 0 {
			fl = []string{"wrap", "up", "fid", "frepr", "wrap", "up", "fid", "frepr", "wrap", "up", "fid", "frepr", "nosuchfilter"}
		}
		e := m.EFilter(pickS(g, "wfl", fl), sub())
		for i, n := 0, g.intn("wfla", 0, 3); i < n; i++ {
			if e.S == "batch" && i == 0 {
				// batch(size, fill) builds size-many elements: like ranges, a
				// size above a million is outside the claim, so it stays a
				// small literal (possibly negative or fractional)
				e.A = append(e.A, pickS(g, "wbatch", []*m.E{m.ENum(0), m.ENum(1), m.ENum(2), m.ENum(3), m.ENum(2.5), m.EUn("-", m.ENum(2)), m.ENum(50), m.EStr("3"), m.ENull()}))
				continue
			}
			e.A = append(e.A, sub())
		}
		return e
	case 14:
		e := m.ETest(pickS(g, "wt", []string{"odd", "even", "divisible by", "nullish", "stringy", "odd", "even", "divisible by", "nullish", "stringy", "nosuchtest"}), g.flip("wneg"), sub())
		for i, n := 0, g.intn("wta", 0, 2); i < n; i++ {
			e.A = append(e.A, sub())
		}
		return e
	default:
		e := &m.E{K: "interp"}
		for i, n := 0, g.intn("wip", 1, 2); i < n; i++ {
			e.A = append(e.A, m.EStr(pickS(g, "wil", []string{"", "a", " "})), g.wildExpr(0))
		}
		return e
	}
}

// WildFilterNames lists the Twig environment's built-in filters.
var TwigFilters = []string{"abs", "default", "batch", "capitalize", "convert_encoding", "date", "date_modify", "first", "format", "join",
	"json_encode", "keys", "last", "length", "lower", "merge", "nl2br", "number_format", "raw", "replace", "reverse", "round", "slice",
	"sort", "split", "striptags", "title", "trim", "upper", "url_encode", "escape"}

// wildStmt adds the statements that only exist in wild multi-template programs.
func (g *G) wildStmt() []*m.N {
	switch g.intn("wstmt", 0, 5) {
	case 0:
		if g.inBlock > 0 && g.wildCur+1 < g.wildN {
			return []*m.N{m.NPrint(&m.E{K: "parent"})}
		}
	case 1:
		// block(name) only outside block bodies: inside one it can recurse
		// without bound, which the statement excludes
		if g.inBlock == 0 {
			return []*m.N{m.NPrint(&m.E{K: "blockfn", A: []*m.E{m.EStr(pickS(g, "wbn", []string{"a", "b", "a", "b", "a", "b", "zz"}))}})}
		}
	case 2, 3:
		n := &m.N{K: "include", X: m.EStr(g.wildTarget())}
		// the target stays a literal: a computed name could be the including
		// template itself (unbounded recursion, excluded by the statement)
		if g.flip("wwith") {
			n.Y = g.wildExpr(1)
		}
		n.Only = g.flip("wonly")
		if g.flip("wembed") {
			n.K = "embed"
			for _, name := range []string{"a", "b"} {
				if g.flip("wov") {
					n.Blocks = append(n.Blocks, &m.N{K: "block", S: name, Body: []*m.N{m.NText("ov"), m.NPrint(g.wildExpr(1)), m.NPrint(&m.E{K: "parent"})}})
				}
			}
		}
		return []*m.N{n}
	case 4:
		if len(g.wildMacros) > 0 {
			mm := pickS(g, "wmm", g.wildMacros)
			e := &m.E{K: "mcall", S: mm, T: pickS(g, "wform", []string{"alias", "from"}), U: "mm"}
			if e.T == "from" {
				e.U = mm
			}
			for i, n := 0, g.intn("wmargs", 0, 5); i < n; i++ {
				e.A = append(e.A, g.wildExpr(1))
			}
			return []*m.N{m.NPrint(e)}
		}
	}
	return []*m.N{m.NPrint(g.wildExpr(2))}
}

func (g *G) wildTarget() string {
	if g.wildCur+1 < g.wildN && g.intn("wmiss", 0, 12) > 0 {
		return fmt.Sprintf("w%d", g.intn("wt", g.wildCur+1, g.wildN-1))
	}
	return "missing"
}

// WildProgram generates a multi-template program (inheritance up to 4 levels
// with parent() at every level, use, include, embed, macros in all forms) with
// arbitrary operand kinds. Templates only refer to higher-numbered templates
// (no unbounded recursion, which C02 excludes).
func (g *G) WildProgram(env string) (*m.Program, map[string]sb.V) {
	g.C.Wild = true
	p := &m.Program{Env: env, Loader: "memory", Entry: "w0"}
	g.wildN = g.intn("wn", 1, 5)
	tpls := make([]*m.Tpl, g.wildN)
	// the last template is a macro library too
	for i := g.wildN - 1; i >= 0; i-- {
		g.wildCur = i
		g.vars = nil
		g.macros = nil
		g.blocks = nil
		t := &m.Tpl{Name: fmt.Sprintf("w%d", i)}
		if i+1 < g.wildN && g.intn("wext", 0, 2) > 0 {
			t.Body = append(t.Body, &m.N{K: "extends", X: m.EStr(fmt.Sprintf("w%d", g.intn("wparent", i+1, g.wildN-1)))})
			if g.flip("wuse") && i+1 < g.wildN {
				u := &m.N{K: "use", X: m.EStr(g.wildTarget())}
				if g.flip("walias") {
					u.Pairs = [][2]string{{"a", "xa"}}
				}
				t.Body = append(t.Body, u)
			}
		}
		if len(g.wildMacros) > 0 && g.flip("wimport") {
			t.Body = append(t.Body, &m.N{K: "import", X: m.EStr(fmt.Sprintf("w%d", g.wildN-1)), S: "mm"})
			fr := &m.N{K: "from", X: m.EStr(fmt.Sprintf("w%d", g.wildN-1))}
			for _, mm := range g.wildMacros {
				fr.Pairs = append(fr.Pairs, [2]string{mm, mm})
			}
			t.Body = append(t.Body, fr)
		}
		if i == g.wildN-1 || g.flip("wlocalmacros") {
			for k, n := 0, g.intn("wnm", 0, 2); k < n; k++ {
				md := g.MacroDef(k)
				t.Body = append(t.Body, md)
				if i == g.wildN-1 {
					g.wildMacros = append(g.wildMacros, md.S)
				}
			}
		}
		for _, name := range []string{"a", "b"} {
			if g.flip("wblock") {
				b := &m.N{K: "block", S: name}
				g.inBlock++
				b.Body = g.Body(g.C.Nest)
				g.inBlock--
				if g.flip("wbparent") && i+1 < g.wildN && len(t.Body) > 0 && t.Body[0].K == "extends" {
					b.Body = append(b.Body, m.NPrint(&m.E{K: "parent"}))
				}
				// a block name used twice in one template, nested or in sequence:
				// whatever the library makes of it, it must be an answer
				switch g.intn("wdupblock", 0, 11) {
				case 0:
					b.Body = append(b.Body, &m.N{K: "block", S: name, Body: []*m.N{m.NText("dup-inner")}})
				case 1:
					t.Body = append(t.Body, &m.N{K: "block", S: name, Body: []*m.N{m.NText("dup-first")}})
				}
				t.Body = append(t.Body, b)
			}
		}
		t.Body = append(t.Body, g.Body(g.C.Nest)...)
		tpls[i] = t
	}
	p.Tpls = tpls
	return p, WildCtx()
}
