package gen

import "regexp"

var reFrag = regexp.MustCompile(`(?s)\{\{-?|\{%-?|\{#-?|-?\}\}|-?%\}|-?#\}|#\{|[A-Za-z_][A-Za-z0-9_]*|[0-9]+|[ \t\r\n]+|\*\*|//|==|!=|<=|>=|\.\.|.`)

// Fragments splits a template source into lexical fragments (delimiters,
// words, numbers, whitespace runs, operators, single bytes). Concatenating
// the fragments gives back the source.
func Fragments(src string) []string {
	return reFrag.FindAllString(src, -1)
}
