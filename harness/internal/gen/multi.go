package gen

import (
	"fmt"

	"pgregory.net/rapid"

	m "verif/internal/model"
)

// ---- inheritance (C09) -----------------------------------------------------

// Block override modes per (level, block name).
const (
	BAbsent       = 0
	BOverride     = 1
	BParentBefore = 2 // override whose body starts with parent()
	BParentAfter  = 3 // override whose body ends with parent()
)

// InheritCfg describes an inheritance configuration: template 0 is the leaf,
// template L-1 the root. Mode[level][name] for level < L-1; the root defines
// every block.
type InheritCfg struct {
	L     int     `json:"l"`
	Names int     `json:"names"`
	Mode  [][]int `json:"mode"`
	Entry int     `json:"entry"` // render from this level
	// Use: level UseAt (-1 none) imports template "u" which defines the blocks
	// in UseNames (bit i = name i); UseAlias >= 0: that name is imported with an
	// alias and the level's own override calls block(alias).
	UseAt    int `json:"use_at"`
	UseNames int `json:"use_names"`
	UseAlias int `json:"use_alias"`
	// ExtendsExpr: 0 literal, 1 concatenation, 2 conditional on a context variable.
	ExtendsExpr int `json:"extends_expr"`
	// Extras (random shapes).
	Nested    bool `json:"nested,omitempty"`     // root nests block "in" inside block a
	LoopBlock bool `json:"loop_block,omitempty"` // root renders block b inside a loop
	BlockFn   bool `json:"block_fn,omitempty"`   // root prints block('a') a second time
	Outside   bool `json:"outside,omitempty"`    // children have content outside blocks
	NestOver  bool `json:"nest_over,omitempty"`  // overriding blocks contain a nested block (before parent() when it comes last)
	// UseLevels: bit l set = level l (also) imports template "u" (several
	// levels of one chain may import, giving long block chains).
	UseLevels int `json:"use_levels,omitempty"`
	// FilterFirst: every block body is wrapped in a filter section whose
	// filter list differs per level; ExtendsLast puts the extends tag at the
	// end, so that these sections start at the same source position in
	// several templates of one execution.
	FilterFirst bool `json:"filter_first,omitempty"`
	ExtendsLast bool `json:"extends_last,omitempty"`
	// FrameAlias[l] = k+1 > 0: level l imports block "frame" of template "u"
	// under the name of block k (a different name at each level, colliding with
	// blocks the chain defines itself); 0 = no such alias at that level.
	FrameAlias []int `json:"frame_alias,omitempty"`
	// UParent: the blocks of the used template "u" end with parent().
	UParent bool `json:"u_parent,omitempty"`
	// Guard: the overriding blocks of the children stand under control flow at
	// the top level (1: if true, 2: if false, 3: a two-pass loop, 4: the else
	// branch of a loop over nothing): they are defined all the same, and
	// rendered only where the root places them.
	Guard int `json:"guard,omitempty"`
	// AliasSelf: the aliased block is imported "with a as a"; AliasSwap: two
	// used blocks are imported under each other's names.
	// TopBlockFn: the template directly below the root assigns block('a') to a
	// variable at its top level (1: plainly, 2: under an if, 3: inside a
	// capture under an if; 4, 5: a block defined inside a capture under an if /
	// a for); the root prints the variable after its layout.
	TopBlockFn int `json:"top_block_fn,omitempty"`
	// RootUse: the root of the chain (which extends nothing) imports template
	// "u" as well: what it uses ranks below its own blocks.
	RootUse   bool `json:"root_use,omitempty"`
	AliasSelf bool `json:"alias_self,omitempty"`
	AliasSwap bool `json:"alias_swap,omitempty"`
}

var blockNames = []string{"a", "b", "c", "d"}

func tplName(level int) string { return fmt.Sprintf("t%d", level) }

func whoCall() *m.N { return m.NPrint(m.ECall("who")) }

// BuildInherit builds the program for a configuration.
func BuildInherit(c *InheritCfg) *m.Program {
	p := &m.Program{Env: "core", Loader: "memory", Entry: tplName(c.Entry)}
	p.Ctx = []*m.CtxVar{{Name: "sel", V: m.Bool(true)}, {Name: "one", V: m.Num(1)}}
	root := c.L - 1
	for lvl := 0; lvl < c.L; lvl++ {
		t := &m.Tpl{Name: tplName(lvl)}
		if lvl < root {
			parent := tplName(lvl + 1)
			var x *m.E
			switch c.ExtendsExpr {
			case 1:
				x = m.EBin("~", m.EStr("t"), m.ENum(float64(lvl+1)))
			case 2:
				x = m.ECond(m.EName("sel"), m.EStr(parent), m.EStr("missing"))
			default:
				x = m.EStr(parent)
			}
			ext := &m.N{K: "extends", X: x}
			if !c.ExtendsLast {
				t.Body = append(t.Body, ext)
			} else {
				defer func(t *m.Tpl) { t.Body = append(t.Body, ext) }(t)
			}
			if c.UseAt == lvl || c.UseLevels&(1<<uint(lvl)) != 0 {
				u := &m.N{K: "use", X: m.EStr("u")}
				if c.UseAlias >= 0 {
					u.Pairs = [][2]string{{blockNames[c.UseAlias], "x" + blockNames[c.UseAlias]}}
					if c.AliasSelf {
						u.Pairs[0][1] = blockNames[c.UseAlias]
					}
				} else if c.AliasSwap {
					var used []string
					for ni := 0; ni < c.Names; ni++ {
						if c.UseNames&(1<<uint(ni)) != 0 {
							used = append(used, blockNames[ni])
						}
					}
					if len(used) >= 2 {
						u.Pairs = [][2]string{{used[0], used[1]}, {used[1], used[0]}}
					}
				}
				// (also onto the name that the other alias of this tag renames; not
				// onto a name that another alias of this tag already gives)
				if lvl < len(c.FrameAlias) && c.FrameAlias[lvl] > 0 {
					taken := false
					for _, pr := range u.Pairs {
						taken = taken || pr[1] == blockNames[c.FrameAlias[lvl]-1]
					}
					if !taken {
						u.Pairs = append(u.Pairs, [2]string{"frame", blockNames[c.FrameAlias[lvl]-1]})
					}
				}
				t.Body = append(t.Body, u)
			}
			if c.Outside {
				t.Body = append(t.Body, m.NText("OUT"+fmt.Sprint(lvl)), whoCall())
			}
			if c.TopBlockFn > 0 && lvl == root-1 {
				call := &m.E{K: "blockfn", A: []*m.E{m.EStr("a")}}
				switch c.TopBlockFn {
				case 1:
					t.Body = append(t.Body, &m.N{K: "set", S: "tb", X: call})
				case 2:
					t.Body = append(t.Body, &m.N{K: "if", X: m.EName("sel"), Body: []*m.N{{K: "set", S: "tb", X: call}}})
				case 3:
					t.Body = append(t.Body, &m.N{K: "if", X: m.EName("sel"), Body: []*m.N{{K: "setcap", S: "tb", Body: []*m.N{m.NText("<"), m.NPrint(call), m.NText(">")}}}})
				case 4:
					// a block *defined* inside the capture: its text belongs to
					// the captured value, in place
					capb := &m.N{K: "block", S: "capb", Body: []*m.N{m.NText("CB("), whoCall(), m.NText(")")}}
					t.Body = append(t.Body, &m.N{K: "if", X: m.EName("sel"), Body: []*m.N{{K: "setcap", S: "tb", Body: []*m.N{m.NText("<"), capb, m.NText(">")}}}})
				default:
					// the same under a loop, one capture per iteration
					capb := &m.N{K: "block", S: "capb", Body: []*m.N{m.NText("#"), m.NPrint(m.EName("g2"))}}
					t.Body = append(t.Body, &m.N{K: "set", S: "tb", X: m.EStr("")},
						&m.N{K: "for", S: "g2", X: m.EBin("..", m.ENum(1), m.ENum(2)), Body: []*m.N{
							{K: "setcap", S: "box", Body: []*m.N{m.NText("("), capb, m.NText(")")}},
							{K: "set", S: "tb", X: m.EBin("~", m.EName("tb"), m.EName("box"))}}})
				}
			}
			for ni := 0; ni < c.Names; ni++ {
				mode := c.Mode[lvl][ni]
				if mode == BAbsent {
					continue
				}
				name := blockNames[ni]
				b := &m.N{K: "block", S: name}
				par := m.NPrint(&m.E{K: "parent"})
				if mode == BParentBefore {
					b.Body = append(b.Body, par)
				}
				if c.NestOver {
					b.Body = append(b.Body, &m.N{K: "block", S: "n" + name, Body: []*m.N{m.NText(fmt.Sprintf("N%d.%s(", lvl, name)), whoCall(), m.NText(")")}})
				}
				b.Body = append(b.Body, m.NText(fmt.Sprintf("L%d.%s(", lvl, name)), whoCall())
				if c.LoopBlock && ni == 1 {
					// the root renders this block inside a loop: the override sees
					// the loop's variable and metadata
					b.Body = append(b.Body, m.NPrint(m.EName("i")), m.NText("/"), m.NPrint(m.EAttr(m.EName("loop"), "index")), m.NPrint(m.EAttr(m.EName("loop"), "last")))
				}
				if c.UseAt == lvl && c.UseAlias == ni && !c.AliasSelf {
					b.Body = append(b.Body, m.NPrint(&m.E{K: "blockfn", A: []*m.E{m.EStr("x" + name)}}))
				}
				b.Body = append(b.Body, m.NText(")"))
				if mode == BParentAfter {
					b.Body = append(b.Body, par)
				}
				if c.FilterFirst {
					b.Body = []*m.N{{K: "filter", Names: levelFilters[lvl%len(levelFilters)], Body: b.Body}}
				}
				switch c.Guard {
				case 1:
					t.Body = append(t.Body, &m.N{K: "if", X: m.EName("sel"), Body: []*m.N{whoCall(), b}})
				case 2:
					t.Body = append(t.Body, &m.N{K: "if", X: m.EUn("not", m.EName("sel")), Body: []*m.N{b}, HasElse: true, Else: []*m.N{whoCall()}})
				case 3:
					t.Body = append(t.Body, &m.N{K: "for", S: "g", X: m.EBin("..", m.ENum(1), m.ENum(2)), Body: []*m.N{b, whoCall()}})
				case 4:
					t.Body = append(t.Body, &m.N{K: "for", S: "g", X: m.EArr(), Body: []*m.N{whoCall()}, HasElse: true, Else: []*m.N{b}})
				default:
					t.Body = append(t.Body, b)
				}
				if c.Outside {
					t.Body = append(t.Body, m.NText(" "))
				}
			}
		} else {
			if c.RootUse {
				t.Body = append(t.Body, &m.N{K: "use", X: m.EStr("u")})
			}
			t.Body = append(t.Body, m.NText("["))
			for ni := 0; ni < c.Names; ni++ {
				name := blockNames[ni]
				b := &m.N{K: "block", S: name, Body: []*m.N{m.NText("R." + name + "("), whoCall(), m.NText(")")}}
				if c.FilterFirst && !c.Nested {
					b.Body = []*m.N{{K: "filter", Names: []string{"wrap", "up"}, Body: b.Body}}
				}
				if c.Nested && ni == 0 {
					b.Body = append(b.Body, &m.N{K: "block", S: "inner", Body: []*m.N{m.NText("R.in("), whoCall(), m.NText(")")}})
				}
				if c.LoopBlock && ni == 1 {
					t.Body = append(t.Body, &m.N{K: "for", S: "i", X: m.EBin("..", m.ENum(1), m.ENum(2)), Body: []*m.N{m.NPrint(m.EName("i")), b}})
				} else {
					t.Body = append(t.Body, b)
				}
				t.Body = append(t.Body, m.NText("|"))
			}
			if c.BlockFn {
				t.Body = append(t.Body, m.NPrint(&m.E{K: "blockfn", A: []*m.E{m.EStr("a")}}))
			}
			t.Body = append(t.Body, m.NText("]"), whoCall())
			if c.TopBlockFn > 0 {
				t.Body = append(t.Body, m.NText("tb="), m.NPrint(m.EName("tb")))
			}
		}
		p.Tpls = append(p.Tpls, t)
	}
	if c.RootUse && c.UseNames == 0 {
		c.UseNames = 1
	}
	if c.UseAt >= 0 || c.UseLevels != 0 || c.RootUse {
		u := &m.Tpl{Name: "u"}
		for ni := 0; ni < c.Names; ni++ {
			if c.UseNames&(1<<uint(ni)) != 0 {
				name := blockNames[ni]
				ub := &m.N{K: "block", S: name, Body: []*m.N{m.NText("U." + name + "("), whoCall(), m.NText(")")}}
				if c.UParent {
					ub.Body = append(ub.Body, m.NPrint(&m.E{K: "parent"}))
				}
				u.Body = append(u.Body, ub)
			}
		}
		if c.Nested {
			u.Body = append(u.Body, &m.N{K: "block", S: "inner", Body: []*m.N{m.NText("U.in("), whoCall(), m.NText(")")}})
		}
		for _, fa := range c.FrameAlias {
			if fa > 0 {
				fb := &m.N{K: "block", S: "frame", Body: []*m.N{m.NText("U.frame("), whoCall(), m.NText(")")}}
				if c.UParent {
					// under its alias the block's parent() is the next definition of the alias name
					fb.Body = append(fb.Body, m.NPrint(&m.E{K: "parent"}))
				}
				u.Body = append(u.Body, fb)
				break
			}
		}
		p.Tpls = append(p.Tpls, u)
	}
	return p
}

// GenInherit draws a random configuration (possibly beyond the enumerated grid).
func GenInherit(t *rapid.T) *InheritCfg {
	c := &InheritCfg{L: rapid.SampledFrom([]int{1, 2, 2, 3, 3, 4, 4, 5, 6}).Draw(t, "L"), Names: rapid.IntRange(1, 4).Draw(t, "names"), UseAt: -1, UseAlias: -1}
	c.Entry = rapid.IntRange(0, c.L-1).Draw(t, "entry")
	if rapid.IntRange(0, 2).Draw(t, "leaf") > 0 {
		c.Entry = 0
	}
	for l := 0; l < c.L-1; l++ {
		row := make([]int, c.Names)
		for n := range row {
			row[n] = rapid.IntRange(0, 3).Draw(t, "mode")
		}
		c.Mode = append(c.Mode, row)
	}
	if c.L >= 2 && rapid.Bool().Draw(t, "use") {
		c.UseAt = rapid.IntRange(0, c.L-2).Draw(t, "useAt")
		c.UseNames = rapid.IntRange(1, (1<<uint(c.Names))-1).Draw(t, "useNames")
		if rapid.Bool().Draw(t, "alias") {
			for n := 0; n < c.Names; n++ {
				if c.UseNames&(1<<uint(n)) != 0 && c.Mode[c.UseAt][n] != BAbsent {
					c.UseAlias = n
				}
			}
		}
	}
	if c.UseAlias >= 0 {
		c.AliasSelf = rapid.IntRange(0, 3).Draw(t, "aliasSelf") == 0
	} else if c.UseAt >= 0 {
		c.AliasSwap = rapid.IntRange(0, 2).Draw(t, "aliasSwap") == 0
	}
	c.ExtendsExpr = rapid.IntRange(0, 2).Draw(t, "ext")
	c.Nested = rapid.Bool().Draw(t, "nested")
	c.LoopBlock = rapid.Bool().Draw(t, "loop") && c.Names >= 2
	c.BlockFn = rapid.Bool().Draw(t, "blockfn")
	c.Outside = rapid.Bool().Draw(t, "outside")
	c.NestOver = rapid.Bool().Draw(t, "nestover")
	c.RootUse = rapid.IntRange(0, 4).Draw(t, "rootuse") == 0
	if c.L >= 2 && rapid.IntRange(0, 3).Draw(t, "topblockfn") == 0 {
		c.TopBlockFn = rapid.IntRange(1, 5).Draw(t, "tbf")
	}
	if rapid.IntRange(0, 3).Draw(t, "guarded") == 0 {
		c.Guard = rapid.IntRange(1, 4).Draw(t, "guard")
	}
	if c.L >= 3 && rapid.IntRange(0, 2).Draw(t, "multiuse") == 0 {
		c.UseLevels = rapid.IntRange(1, (1<<uint(c.L-1))-1).Draw(t, "uselevels")
		if c.UseNames == 0 {
			c.UseNames = rapid.IntRange(1, (1<<uint(c.Names))-1).Draw(t, "useNames2")
		}
	}
	if (c.UseAt >= 0 || c.UseLevels != 0) && rapid.IntRange(0, 2).Draw(t, "framealias") == 0 {
		for l := 0; l < c.L-1; l++ {
			fa := 0
			if c.UseAt == l || c.UseLevels&(1<<uint(l)) != 0 {
				fa = rapid.IntRange(0, c.Names).Draw(t, "fa")
			}
			c.FrameAlias = append(c.FrameAlias, fa)
		}
	}
	c.UParent = (c.UseAt >= 0 || c.UseLevels != 0) && rapid.IntRange(0, 2).Draw(t, "uparent") == 0
	c.FilterFirst = rapid.IntRange(0, 3).Draw(t, "filterfirst") == 0
	c.ExtendsLast = rapid.Bool().Draw(t, "extlast")
	return c
}

// ---- include / embed (C10) -------------------------------------------------

var incNames = []string{"x", "y", "z", "w"}

func (g *G) incObserve() *m.N {
	// observation that is total on any value: cat(...) of some names
	n := g.intn("ncat", 1, 3)
	var args []*m.E
	for i := 0; i < n; i++ {
		args = append(args, m.EName(pickS(g, "oname", incNames)))
	}
	return m.NPrint(m.ECall("cat", args...))
}

func (g *G) incProbe() *m.N {
	return m.NPrint(m.ECall("probe", m.EStr(pickS(g, "pname", incNames))))
}

func (g *G) incLit() *m.E {
	switch g.intn("lit", 0, 2) {
	case 0:
		return m.ENum(float64(g.intn("n", 0, 9)))
	case 1:
		return m.EStr(pickS(g, "s", []string{"p", "q", "rr"}))
	}
	return m.EBool(g.flip("b"))
}

// incBody generates the body of an included / embedded template: text,
// observations, sets of colliding names, nested includes of lower-numbered
// targets and (for embed targets) blocks.
func (g *G) incBody(idx int, withBlocks bool, depth int) []*m.N {
	var out []*m.N
	// templates often begin with a filter section (the same source position in
	// several templates of one execution)
	if g.intn("filterfirst", 0, 2) == 0 {
		out = append(out, g.incFilterSection())
	}
	n := g.intn("ilen", 1, 5)
	for i := 0; i < n; i++ {
		switch g.intn("ik", 0, 7) {
		case 0, 1:
			out = append(out, m.NText(g.Text()))
		case 2:
			out = append(out, g.incObserve())
		case 3:
			out = append(out, g.incProbe())
		case 4:
			out = append(out, &m.N{K: "set", S: pickS(g, "sname", incNames), X: g.incLit()})
		case 5:
			if idx > 0 && depth < 2 {
				out = append(out, g.incStmt(idx, depth+1))
			} else {
				out = append(out, whoCall())
			}
		case 6:
			if withBlocks {
				g.nblock++
				name := pickS(g, "bn", []string{"a", "b", "c"})
				if !g.usedBlock[name] {
					g.usedBlock[name] = true
					out = append(out, &m.N{K: "block", S: name, Body: []*m.N{m.NText("T" + fmt.Sprint(idx) + "." + name + "("), g.incObserve(), whoCall(), m.NText(")")}})
				}
			} else {
				out = append(out, whoCall())
			}
		default:
			out = append(out, &m.N{K: "for", S: "x", X: g.incSeq(), Body: []*m.N{g.incObserve()}})
		}
	}
	return out
}

// incSeq is the sequence of a loop around a call site: a range, or a list
// with null elements (a null loop variable still hides an outer variable of
// the same name from the included template).
func (g *G) incSeq() *m.E {
	switch g.intn("incseq", 0, 3) {
	case 0:
		return m.EArr(m.ENull(), m.ENum(3))
	case 1:
		return m.EArr(m.EStr("s"), m.ENull())
	}
	return m.EBin("..", m.ENum(1), m.ENum(2))
}

func (g *G) incFilterSection() *m.N {
	f := &m.N{K: "filter", Body: []*m.N{m.NText(pickS(g, "ftxt", []string{"ab", "cd ", "x"})), g.incObserve()}}
	for i, k := 0, g.intn("nf", 1, 2); i < k; i++ {
		f.Names = append(f.Names, pickS(g, "fname", []string{"up", "wrap", "fid"}))
	}
	return f
}

func (g *G) withHash() *m.E {
	// sometimes the with-expression is a host variable holding a hash: the
	// target's assignments must not reach it
	switch g.intn("withvar", 0, 5) {
	case 0:
		return m.EName("hv")
	case 1:
		return m.EName("hs") // a Go map[string]string
	}
	h := &m.E{K: "hash"}
	n := g.intn("nwith", 0, 3)
	seen := map[string]bool{}
	for i := 0; i < n; i++ {
		k := pickS(g, "wk", incNames)
		if seen[k] {
			continue
		}
		seen[k] = true
		h.KS = append(h.KS, m.EStr(k))
		h.A = append(h.A, g.incLit())
	}
	return h
}

// incStmt generates an include or embed of a target numbered below idx.
func (g *G) incStmt(idx int, depth int) *m.N {
	target := g.intn("target", 0, idx-1)
	n := &m.N{K: "include", X: m.EStr(fmt.Sprintf("inc%d", target))}
	if g.flip("with") {
		n.Y = g.withHash()
	}
	n.Only = g.flip("only") || g.forceOnly
	if g.embedOK[target] && g.flip("embed") {
		n.K = "embed"
		taken := map[string]bool{}
		for _, name := range []string{"a", "b", "c"} {
			if taken[name] {
				continue
			}
			if g.intn("ov", 0, 2) == 0 {
				taken[name] = true
				body := []*m.N{m.NText("OV." + name + "("), g.incObserve()}
				// a block nested in the override: it belongs to the embed, whatever
				// blocks of that name the host's own chain has
				if g.intn("ovnest", 0, 3) == 0 {
					for _, nn := range []string{"c", "b", "a"} {
						if !taken[nn] && nn > name {
							taken[nn] = true
							body = append(body, &m.N{K: "block", S: nn, Body: []*m.N{m.NText("OVN." + nn + "("), whoCall(), m.NText(")")}})
							break
						}
					}
				}
				if depth < 1 && idx > 0 && g.intn("nestembed", 0, 3) == 0 {
					// an include / embed nested inside the override block
					body = append(body, g.incStmt(idx, depth+1))
				}
				if g.flip("ovparent") && g.targetBlocks[target][name] {
					body = append(body, m.NPrint(&m.E{K: "parent"}))
				}
				body = append(body, whoCall(), m.NText(")"))
				n.Blocks = append(n.Blocks, &m.N{K: "block", S: name, Body: body})
			}
		}
	}
	return n
}

// IncludeProgram generates a host with colliding variables and blocks that
// includes / embeds generated targets in every position.
func (g *G) IncludeProgram() *m.Program {
	p := &m.Program{Env: "core", Loader: "memory", Entry: "host"}
	g.embedOK = map[int]bool{}
	g.targetBlocks = map[int]map[string]bool{}
	nt := g.intn("ntargets", 1, 4)
	for i := 0; i < nt; i++ {
		g.usedBlock = map[string]bool{}
		withBlocks := g.flip("tblocks")
		t := &m.Tpl{Name: fmt.Sprintf("inc%d", i)}
		// a target may extend a base layout
		if withBlocks && g.flip("textends") {
			base := &m.Tpl{Name: fmt.Sprintf("base%d", i)}
			base.Body = []*m.N{m.NText("B["), &m.N{K: "block", S: "a", Body: []*m.N{m.NText("B.a("), g.incObserve(), whoCall(), m.NText(")")}},
				g.incProbe(), m.NText("]")}
			p.Tpls = append(p.Tpls, base)
			t.Body = append(t.Body, &m.N{K: "extends", X: m.EStr(base.Name)})
			g.usedBlock["a"] = true
			if g.flip("tover") {
				t.Body = append(t.Body, &m.N{K: "block", S: "a", Body: []*m.N{m.NText("T" + fmt.Sprint(i) + ".a("), m.NPrint(&m.E{K: "parent"}), g.incObserve(), m.NText(")")}})
			}
		} else {
			t.Body = g.incBody(i, withBlocks, 0)
		}
		g.embedOK[i] = true
		g.targetBlocks[i] = g.usedBlock
		p.Tpls = append(p.Tpls, t)
	}
	host := &m.Tpl{Name: "host"}
	if g.intn("hostfilterfirst", 0, 2) == 0 {
		host.Body = append(host.Body, g.incFilterSection())
	}
	hv := m.Val{K: m.KHash}
	hv.HashSet("x", m.Str("HVx"))
	hv.HashSet("w", m.Num(7))
	p.Ctx = append(p.Ctx, &m.CtxVar{Name: "hv", V: hv})
	hs := m.Val{K: m.KHash}
	hs.HashSet("y", m.Str("HSy"))
	p.Ctx = append(p.Ctx, &m.CtxVar{Name: "hs", V: hs, Carrier: "map:str:str"})
	// host variables
	for _, name := range incNames {
		if g.flip("hostvar") {
			p.Ctx = append(p.Ctx, &m.CtxVar{Name: name, V: m.Str("H" + name)})
		}
	}
	// host blocks that share names with target blocks
	hostBlocks := g.flip("hostblocks")
	if hostBlocks {
		host.Body = append(host.Body, &m.N{K: "block", S: "a", Body: []*m.N{m.NText("HOST.a")}}, &m.N{K: "block", S: "b", Body: []*m.N{m.NText("HOST.b")}})
	}
	if g.flip("macrosite") {
		// inside a macro only its parameters are visible: include with "only"
		g.forceOnly = true
		host.Body = append(host.Body, &m.N{K: "macro", S: "mi", Names: []string{"x"}, Body: []*m.N{m.NText("M("), g.incStmt(nt, 0), m.NText(")")}})
		g.forceOnly = false
		host.Body = append(host.Body, m.NPrint(&m.E{K: "mcall", S: "mi", T: "self", A: []*m.E{m.EStr("arg")}}))
	}
	n := g.intn("hlen", 1, 5)
	for i := 0; i < n; i++ {
		switch g.intn("hk", 0, 5) {
		case 0:
			host.Body = append(host.Body, m.NText(g.Text()))
		case 1:
			host.Body = append(host.Body, &m.N{K: "set", S: pickS(g, "hs", incNames), X: g.incLit()})
		case 2:
			host.Body = append(host.Body, &m.N{K: "for", S: pickS(g, "hlv", []string{"y", "y", "x"}), T: "", X: g.incSeq(), Body: []*m.N{g.incStmt(nt, 0), g.incProbe()}})
		case 3:
			if !hostBlocks {
				host.Body = append(host.Body, &m.N{K: "block", S: "hb" + fmt.Sprint(i), Body: []*m.N{g.incStmt(nt, 0)}})
			} else {
				host.Body = append(host.Body, g.incStmt(nt, 0))
			}
		default:
			host.Body = append(host.Body, g.incStmt(nt, 0))
		}
		// observe the host's variables after every step
		host.Body = append(host.Body, g.incProbe(), g.incObserve(), m.NPrint(m.ECall("cat", m.EName("hv"))))
	}
	p.Tpls = append(p.Tpls, host)
	return p
}

// ---- macros (C11) ----------------------------------------------------------

// MacroProgram generates macro libraries and calls in the three forms.
func (g *G) MacroProgram() *m.Program {
	p := &m.Program{Env: "core", Loader: "memory", Entry: "main"}
	ctx, vi := StdCtx(g)
	p.Ctx = ctx
	g.vars = vi
	// the caller has variables named like the macros' parameters: an argument
	// is evaluated in the caller's scope, whatever the callee calls its parameters
	for k := 0; k < 4; k++ {
		p.Ctx = append(p.Ctx, &m.CtxVar{Name: fmt.Sprintf("p%d", k), V: m.Str(fmt.Sprintf("caller-p%d", k))})
	}
	lib := &m.Tpl{Name: "lib"}
	nm := g.intn("nlib", 1, 4)
	type mi struct {
		name   string
		params int
	}
	var libMacros []mi
	selfInLib := false
	for i := 0; i < nm; i++ {
		np := g.intn("np", 0, 4)
		n := &m.N{K: "macro", S: fmt.Sprintf("lm%d", i)}
		for k := 0; k < np; k++ {
			n.Names = append(n.Names, fmt.Sprintf("p%d", k))
		}
		n.Body = []*m.N{m.NText(fmt.Sprintf("lm%d(", i))}
		for k := 0; k < np; k++ {
			if g.flip("showp") {
				n.Body = append(n.Body, m.NPrint(m.ECall("cat", m.EName(fmt.Sprintf("p%d", k)))))
			} else {
				n.Body = append(n.Body, m.NPrint(m.EName(fmt.Sprintf("p%d", k))), m.NText(","))
			}
		}
		if g.flip("mwho") {
			n.Body = append(n.Body, whoCall())
		}
		if i >= 1 && g.intn("selfinlib", 0, 2) == 0 {
			// a library macro that reaches a sibling through _self: inside a
			// macro body _self is the template that defines the macro, whoever
			// called it (the caller has a macro of the sibling's name as well)
			selfInLib = true
			if g.flip("selfvia") {
				n.Body = append(n.Body, &m.N{K: "from", X: m.EName("_self"), Pairs: [][2]string{{"lm0", "sib"}}},
					m.NPrint(&m.E{K: "mcall", S: "lm0", T: "from", U: "sib", A: []*m.E{m.ENum(float64(i))}}))
			} else {
				n.Body = append(n.Body, &m.N{K: "import", X: m.EName("_self"), S: "me"},
					m.NPrint(&m.E{K: "mcall", S: "lm0", T: "alias", U: "me", A: []*m.E{m.ENum(float64(i))}}))
			}
		}
		n.Body = append(n.Body, m.NText(")"))
		lib.Body = append(lib.Body, n, m.NText("\n"))
		libMacros = append(libMacros, mi{n.S, np})
	}
	p.Tpls = append(p.Tpls, lib)
	main := &m.Tpl{Name: "main"}
	// local macros (may call lower-numbered local macros through _self)
	g.C.Macros = true
	for i, k := 0, g.intn("nlocal", 0, 2); i < k; i++ {
		main.Body = append(main.Body, g.MacroDef(i))
	}
	if selfInLib {
		main.Body = append(main.Body, &m.N{K: "macro", S: "lm0", Names: []string{"p0"}, Body: []*m.N{m.NText("MAIN-lm0("), m.NPrint(m.EName("p0")), whoCall(), m.NText(")")}})
	}
	main.Body = append(main.Body, &m.N{K: "import", X: m.EStr("lib"), S: "mm"})
	// the template's own macros through an import of _self
	if len(g.macros) > 0 && g.intn("importself", 0, 2) == 0 {
		main.Body = append(main.Body, &m.N{K: "import", X: m.EName("_self"), S: "ss"},
			m.NPrint(&m.E{K: "mcall", S: "m0", T: "alias", U: "ss", A: []*m.E{m.ENum(7), m.EStr("z")}}),
			&m.N{K: "from", X: m.EName("_self"), Pairs: [][2]string{{"m0", "self_m0"}}},
			m.NPrint(&m.E{K: "mcall", S: "m0", T: "from", U: "self_m0", A: []*m.E{m.ENum(8)}}), m.NText(";"))
	}
	from := &m.N{K: "from", X: m.EStr("lib")}
	fromNames := map[string]string{}
	usedFn := map[int]bool{}
	for _, lm := range libMacros {
		if g.flip("fromimp") {
			local := lm.name
			if g.flip("rename") || (selfInLib && lm.name == "lm0") {
				local = "f_" + lm.name
				// sometimes the local name is that of a registered function:
				// the imported macro takes its place
				if g.intn("fncollide", 0, 3) == 0 && !usedFn[len(from.Pairs)%3] {
					local = []string{"add", "nul", "truth"}[len(from.Pairs)%3]
					usedFn[len(from.Pairs)%3] = true
				}
			}
			from.Pairs = append(from.Pairs, [2]string{lm.name, local})
			fromNames[lm.name] = local
		}
	}
	if len(from.Pairs) > 0 {
		main.Body = append(main.Body, from)
		// a local macro defined after the from tag under the name an import is
		// known by: plain calls still reach the imported macro, _self the local
		if g.intn("shadowlocal", 0, 3) == 0 {
			pr := from.Pairs[g.intn("shadowwhich", 0, len(from.Pairs)-1)]
			own := &m.N{K: "macro", S: pr[1], Names: []string{"p1", "p0"}, Body: []*m.N{m.NText("OWN("), m.NPrint(m.ECall("cat", m.EName("p0"), m.EName("p1"))), whoCall(), m.NText(")")}}
			main.Body = append(main.Body, own, m.NPrint(&m.E{K: "mcall", S: pr[1], T: "self", A: []*m.E{m.ENum(1), m.ENum(2)}}),
				m.NText("/"), m.NPrint(&m.E{K: "mcall", S: pr[0], T: "from", U: pr[1], A: []*m.E{m.ENum(1), m.ENum(2)}}), m.NText(";"))
		}
	}
	arg := func() *m.E {
		switch g.intn("argkind", 0, 29) {
		case 0, 1, 2, 3, 4, 5, 6:
			return m.EName(fmt.Sprintf("p%d", g.intn("argp", 0, 3)))
		case 7:
			// an unknown macro of the imported set inside an argument list
			return &m.E{K: "mcall", S: "nosuch", T: "alias", U: "mm", A: []*m.E{m.ENum(1)}}
		}
		return g.Expr(pickS(g, "aty", []Ty{TInt, TStr, TBool, TNull}), 1)
	}
	call := func() *m.E {
		lm := pickS(g, "lm", libMacros)
		na := g.intn("na", 0, 6)
		e := &m.E{K: "mcall", S: lm.name, T: "alias", U: "mm"}
		if local, ok := fromNames[lm.name]; ok && g.flip("viafrom") {
			e.T, e.U = "from", local
		}
		if len(g.macros) > 0 && g.intn("local", 0, 3) == 0 {
			return g.macroCall()
		}
		for i := 0; i < na; i++ {
			if g.intn("nest", 0, 5) == 0 && i == 0 {
				inner := &m.E{K: "mcall", S: lm.name, T: "alias", U: "mm", A: []*m.E{arg()}}
				e.A = append(e.A, inner)
				continue
			}
			e.A = append(e.A, arg())
		}
		return e
	}
	n := g.intn("ncalls", 1, 6)
	for i := 0; i < n; i++ {
		switch g.intn("use", 0, 8) {
		case 7:
			// macro calls and plain arguments as arguments of a function and a filter
			main.Body = append(main.Body, m.NPrint(m.ECall("cat", arg(), call(), arg())))
		case 8:
			main.Body = append(main.Body, m.NPrint(m.EFilter("wrap", arg(), call(), arg())))
		case 0, 1:
			main.Body = append(main.Body, m.NPrint(call()))
		case 2:
			main.Body = append(main.Body, &m.N{K: "set", S: "r", X: call()}, m.NPrint(m.ECall("cat", m.EName("r"))))
		case 3:
			main.Body = append(main.Body, m.NPrint(m.EBin("~", call(), m.EBin("~", m.EStr("+"), call()))))
		case 4:
			main.Body = append(main.Body, m.NPrint(m.EFilter("wrap", call())))
		case 5:
			main.Body = append(main.Body, &m.N{K: "for", S: "q", X: m.EBin("..", m.ENum(1), m.ENum(2)), Body: []*m.N{m.NPrint(call())}})
		default:
			main.Body = append(main.Body, &m.N{K: "setcap", S: "cap", Body: []*m.N{m.NText("c:"), m.NPrint(call())}}, m.NPrint(m.EName("cap")))
		}
		main.Body = append(main.Body, m.NText(";"))
	}
	// the library named by an expression that changes from one execution of
	// the import tag to the next: every call reaches the library imported last
	if g.intn("dynimport", 0, 2) == 0 {
		lib2 := &m.Tpl{Name: "lib2"}
		for _, lm := range libMacros {
			n := &m.N{K: "macro", S: lm.name, Body: []*m.N{m.NText("L2." + lm.name + "(")}}
			for k := 0; k < lm.params; k++ {
				n.Names = append(n.Names, fmt.Sprintf("p%d", k))
				n.Body = append(n.Body, m.NPrint(m.EName(fmt.Sprintf("p%d", k))), m.NText(";"))
			}
			n.Body = append(n.Body, whoCall(), m.NText(")"))
			lib2.Body = append(lib2.Body, n)
		}
		p.Tpls = append(p.Tpls, lib2)
		order := pickS(g, "dynorder", [][]string{{"lib", "lib2"}, {"lib2", "lib"}, {"lib", "lib2", "lib"}, {"lib2", "lib2", "lib"}})
		var names []*m.E
		for _, o := range order {
			names = append(names, m.EStr(o))
		}
		lm := pickS(g, "dynlm", libMacros)
		args := []*m.E{}
		for i, k := 0, g.intn("dynna", 0, 3); i < k; i++ {
			args = append(args, g.incLit())
		}
		body := []*m.N{{K: "import", X: m.EName("f"), S: "dyn"}, m.NPrint(&m.E{K: "mcall", S: lm.name, T: "alias", U: "dyn", A: args})}
		if g.flip("dynfrom") {
			body = append(body, &m.N{K: "from", X: m.EName("f"), Pairs: [][2]string{{lm.name, "dynf"}}}, m.NText("="), m.NPrint(&m.E{K: "mcall", S: lm.name, T: "from", U: "dynf", A: args}))
		}
		main.Body = append(main.Body, &m.N{K: "for", S: "f", X: m.EArr(names...), Body: body}, m.NText(";"))
	}
	// the same macro through several forms with the same arguments
	if len(libMacros) > 0 && g.flip("sameforms") {
		lm := libMacros[0]
		args := []*m.E{}
		for i, k := 0, g.intn("na", 0, 5); i < k; i++ {
			args = append(args, g.incLit())
		}
		main.Body = append(main.Body, m.NPrint(&m.E{K: "mcall", S: lm.name, T: "alias", U: "mm", A: args}))
		if local, ok := fromNames[lm.name]; ok {
			main.Body = append(main.Body, m.NText("="), m.NPrint(&m.E{K: "mcall", S: lm.name, T: "from", U: local, A: args}))
		}
	}
	if g.flip("unknown") {
		main.Body = append(main.Body, m.NText("!"), m.NPrint(&m.E{K: "mcall", S: "nosuch", T: "alias", U: "mm"}))
	}
	// the local macro definitions may follow the calls
	if g.intn("macroslast", 0, 2) == 0 {
		var defs, others []*m.N
		for _, n := range main.Body {
			if n.K == "macro" {
				defs = append(defs, n)
			} else {
				others = append(others, n)
			}
		}
		main.Body = append(others, defs...)
	}
	// the calling template may extend a layout: its macro definitions and
	// imports stay at top level, everything that renders moves into a block
	if g.intn("extending", 0, 3) == 0 {
		var top, inBlock []*m.N
		for _, n := range main.Body {
			switch n.K {
			case "macro", "import", "from":
				top = append(top, n)
			case "set":
				// the result of a macro call may be assigned outside the blocks,
				// directly or under a condition, and printed inside them
				if n.X != nil && n.X.K == "mcall" && g.intn("hoist", 0, 1) == 0 {
					if g.flip("hoistif") {
						top = append(top, &m.N{K: "if", X: m.EBool(true), Body: []*m.N{n}})
					} else {
						top = append(top, n)
					}
				} else {
					inBlock = append(inBlock, n)
				}
			default:
				inBlock = append(inBlock, n)
			}
		}
		main.Body = append([]*m.N{{K: "extends", X: m.EStr("layout")}}, top...)
		main.Body = append(main.Body, &m.N{K: "block", S: "body", Body: inBlock})
		p.Tpls = append(p.Tpls, &m.Tpl{Name: "layout", Body: []*m.N{m.NText("LAYOUT["), {K: "block", S: "body", Body: []*m.N{m.NText("default")}}, m.NText("]"), whoCall()}})
	}
	p.Tpls = append(p.Tpls, main)
	return p
}

var levelFilters = [][]string{{"up"}, {"wrap"}, {"fid", "up"}, {"wrap", "wrap"}, {"up", "wrap"}, {"fid"}}
