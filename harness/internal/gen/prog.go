package gen

import (
	"fmt"
	"strings"

	"pgregory.net/rapid"

	m "verif/internal/model"
)

// Ty is the static type the generator tracks for every expression so that
// operands stay inside the agreement region by construction.
type Ty int

const (
	TNum Ty = iota // any number (may be fractional)
	TInt           // integral number
	TStr           // non-numeric string
	TBool
	TNull
	TArrInt
	TArrStr
	THash1 // hash with exactly one entry (key k0, integer value)
	THash2 // hash with two entries (k0, k1) - never iterated
	TPat   // a string that is a valid regular expression (for matches)
	TArrPat
)

// Cfg selects which constructs a generated program may contain.
type Cfg struct {
	ExprDepth int
	Nest      int
	BodyLen   int

	HostileText bool
	Calls       bool // recording functions / filters / tests
	Comments    bool
	Verbatim    bool
	If          bool
	For         bool
	LoopMeta    bool
	ForIf       bool
	Set         bool
	SetCap      bool
	FilterSec   bool
	Macros      bool // _self macros in the same template
	NestInterp  bool // interpolated strings inside interpolations
	RecMacro    bool // a macro that loops and calls itself from the loop body (bounded depth)
	Blocks      bool // standalone blocks with block()
	Do          bool
	Probe       bool // probe(name) calls (C07)
	Carriers    bool
	NonIterable bool // allow `for` over a scalar (error arm of C06)
	NoInterp    bool // no string interpolation (position checks)
	BigText     bool // occasionally a text chunk of 30-150 KB
	Collide     bool // loop variables, macro parameters and set targets share a small name pool with outer variables
	Wild        bool // any operand kind anywhere (totality checks)
	WildFilters []string
}

type vinfo struct {
	name string
	ty   Ty
}

// G is a program generator bound to a rapid test.
type G struct {
	T       *rapid.T
	C       Cfg
	vars    []vinfo // variables in scope (innermost last)
	noCalls int     // >0: inside the right operand of and/or
	inForIf int
	loops   int
	macros  []macroInfo
	blocks  []string
	nblock  int
	inMacro int
	inInterp int
	textSeq int
	usedBlock    map[string]bool
	embedOK      map[int]bool
	targetBlocks map[int]map[string]bool
	forceOnly    bool
	inBlock        int
	locals         []string
	noFeedback     int
	assigned       map[string]bool
	wildN, wildCur int
	wildMacros   []string
	an0          []float64 // initial elements of the context list an0
}

type macroInfo struct {
	name   string
	params int
}

func (g *G) intn(label string, lo, hi int) int { return rapid.IntRange(lo, hi).Draw(g.T, label) }
func (g *G) flip(label string) bool             { return rapid.Bool().Draw(g.T, label) }
func (g *G) pick(label string, n int) int       { return rapid.IntRange(0, n-1).Draw(g.T, label) }
func pickS[T any](g *G, label string, xs []T) T { return xs[g.pick(label, len(xs))] }

// collidePool holds names used for loop variables, macro parameters and set
// targets when collisions are wanted (C07): they coincide with context
// variables and with each other.
var collidePool = []string{"i0", "s0", "b0", "z0", "v0", "v1", "an0", "x", "loopv"}

var strPool = []string{"a", "b", "ab", "abc", "x y", "é", "", "Zed", "a-b", "q", "#", "No #", "a#b", "{", "}}"}
var patPool = []string{"a", "^a", "b$", "^ab", "a.c", "[ab]+", "^$", "x|y"}

// StdCtx is the fixed typed context every generated program may use.
func StdCtx(g *G) ([]*m.CtxVar, []vinfo) {
	var cv []*m.CtxVar
	var vi []vinfo
	add := func(name string, ty Ty, v m.Val, carriers ...string) {
		c := &m.CtxVar{Name: name, V: v}
		if g.C.Carriers && len(carriers) > 0 {
			c.Carrier = pickS(g, "carrier", append([]string{""}, carriers...))
		}
		cv = append(cv, c)
		vi = append(vi, vinfo{name, ty})
	}
	ints := []string{"int", "int8", "int16", "int32", "int64", "uint", "uint8", "uint16", "uint32", "uint64", "float32"}
	add("i0", TInt, m.Num(float64(g.intn("i0", 0, 9))), ints...)
	add("i1", TInt, m.Num(float64(g.intn("i1", 1, 12))), ints...)
	add("n0", TNum, m.Num(float64(g.intn("n0", 0, 40))/4))
	add("n1", TNum, m.Num(float64(g.intn("n1", 1, 64))/8))
	add("s0", TStr, m.Str(pickS(g, "s0", strPool)))
	add("s1", TStr, m.Str(pickS(g, "s1", strPool)))
	add("b0", TBool, m.Bool(g.flip("b0")))
	add("b1", TBool, m.Bool(g.flip("b1")))
	add("z0", TNull, m.Null())
	// names that begin with operator words (not in / is / or / and / b-)
	add("index", TInt, m.Num(float64(g.intn("index", 0, 9))), ints...)
	add("inner", TStr, m.Str(pickS(g, "inner", strPool)))
	add("orx", TBool, m.Bool(g.flip("orx")))
	add("isn", TInt, m.Num(float64(g.intn("isn", 0, 5))))
	add("pat0", TPat, m.Str(pickS(g, "pat0", patPool)))
	n := g.intn("an0len", 0, 5)
	a := m.Val{K: m.KArr}
	for i := 0; i < n; i++ {
		a.A = append(a.A, m.Num(float64(g.intn("an0e", 0, 9))))
	}
	add("an0", TArrInt, a, "slice")
	g.an0 = g.an0[:0]
	for _, e := range a.A {
		g.an0 = append(g.an0, e.N)
	}
	n = g.intn("as0len", 0, 4)
	as := m.Val{K: m.KArr}
	for i := 0; i < n; i++ {
		as.A = append(as.A, m.Str(pickS(g, "as0e", strPool)))
	}
	add("as0", TArrStr, as, "slice")
	h1 := m.Val{K: m.KHash}
	h1.HashSet("k0", m.Num(float64(g.intn("h0v", 0, 9))))
	add("h0", THash1, h1)
	h2 := m.Val{K: m.KHash}
	h2.HashSet("k0", m.Num(float64(g.intn("h1v0", 0, 9))))
	h2.HashSet("k1", m.Num(float64(g.intn("h1v1", 0, 9))))
	add("h1", THash2, h2)
	return cv, vi
}

func (g *G) varsOf(ty Ty) []string {
	var out []string
	seen := map[string]bool{}
	for i := len(g.vars) - 1; i >= 0; i-- {
		v := g.vars[i]
		if seen[v.name] {
			continue
		}
		seen[v.name] = true
		// no feedback inside loops: the value of an assignment made in a loop
		// body must not depend on a variable that is itself assigned somewhere
		// (s = s ~ s per iteration grows exponentially)
		if g.noFeedback > 0 && g.assigned[v.name] {
			continue
		}
		if v.ty == ty || (ty == TNum && v.ty == TInt) {
			out = append(out, v.name)
		}
	}
	return out
}

// hasVar reports whether name is in scope as a list of integers.
func (g *G) hasVar(name string) bool {
	for _, v := range g.varsOf(TArrInt) {
		if v == name {
			return true
		}
	}
	return false
}

func (g *G) callsOK() bool { return g.C.Calls && g.noCalls == 0 }

// Expr generates an expression of the requested type.
func (g *G) Expr(ty Ty, d int) *m.E {
	if g.C.Wild {
		return g.wildExpr(d)
	}
	if d <= 0 {
		return g.leaf(ty)
	}
	switch ty {
	case TInt:
		return g.intExpr(d)
	case TNum:
		return g.numExpr(d)
	case TStr:
		return g.strExpr(d)
	case TBool:
		return g.boolExpr(d)
	case TArrInt, TArrStr:
		return g.arrExpr(ty, d)
	}
	return g.leaf(ty)
}

func (g *G) leaf(ty Ty) *m.E {
	if g.C.Wild {
		return g.wildLeaf()
	}
	if vs := g.varsOf(ty); len(vs) > 0 && g.intn("leafvar", 0, 2) > 0 {
		return m.EName(pickS(g, "var", vs))
	}
	switch ty {
	case TInt:
		return m.ENum(float64(g.intn("int", 0, 9)))
	case TNum:
		if g.flip("frac") {
			return m.ENum(float64(g.intn("num8", 0, 40)) / 8)
		}
		return m.ENum(float64(g.intn("int", 0, 9)))
	case TStr:
		if g.C.HostileText && g.intn("mlstr", 0, 4) == 0 {
			return m.EStr(pickS(g, "mls", []string{"x\ny", "\n", "l1\nl2\n", "é\tz"}))
		}
		return m.EStr(pickS(g, "str", strPool))
	case TBool:
		return m.EBool(g.flip("bool"))
	case TNull:
		return m.ENull()
	case TArrInt:
		n := g.intn("alen", 0, 3)
		a := m.EArr()
		for i := 0; i < n; i++ {
			a.A = append(a.A, m.ENum(float64(g.intn("ae", 0, 9))))
		}
		return a
	case TArrStr:
		n := g.intn("alen", 0, 3)
		a := m.EArr()
		for i := 0; i < n; i++ {
			a.A = append(a.A, m.EStr(pickS(g, "ae", strPool)))
		}
		return a
	case TPat:
		return m.EStr(pickS(g, "pat", patPool))
	case THash1:
		return &m.E{K: "hash", KS: []*m.E{g.hashKey("k0")}, A: []*m.E{m.ENum(float64(g.intn("hv", 0, 9)))}}
	case THash2:
		return &m.E{K: "hash", KS: []*m.E{g.hashKey("k0"), g.hashKey("k1")},
			A: []*m.E{m.ENum(float64(g.intn("hv", 0, 9))), m.ENum(float64(g.intn("hv", 0, 9)))}}
	}
	return m.ENull()
}

func (g *G) hashKey(k string) *m.E {
	if g.flip("barekey") {
		return m.EName(k)
	}
	return m.EStr(k)
}

func (g *G) intExpr(d int) *m.E {
	switch g.intn("intk", 0, 11) {
	case 0, 1:
		return g.leaf(TInt)
	case 2:
		return m.EBin(pickS(g, "op", []string{"+", "-", "*"}), g.Expr(TInt, d-1), g.Expr(TInt, d-1))
	case 3:
		return m.EBin("//", g.Expr(TInt, d-1), m.ENum(float64(g.intn("div", 1, 5))))
	case 4:
		return m.EBin("%", g.Expr(TInt, d-1), m.ENum(float64(g.intn("mod", 1, 7))))
	case 5:
		return m.EBin("**", m.ENum(float64(g.intn("base", 0, 4))), m.ENum(float64(g.intn("exp", 0, 3))))
	case 6:
		return m.EBin(pickS(g, "bop", []string{"b-and", "b-or", "b-xor"}), g.Expr(TInt, d-1), g.Expr(TInt, d-1))
	case 7:
		return m.EUn(pickS(g, "uop", []string{"-", "+"}), g.Expr(TInt, d-1))
	case 8:
		return m.ECond(g.Expr(TBool, d-1), g.Expr(TInt, d-1), g.Expr(TInt, d-1))
	case 9:
		// element / key access
		switch g.intn("acc", 0, 3) {
		case 0:
			return m.EIdx(g.Expr(TArrInt, d-1), m.ENum(float64(g.intn("ix", 0, 4))))
		case 1:
			return m.EAttr(g.Expr(TArrInt, 0), fmt.Sprint(g.intn("ix", 0, 3)))
		case 2:
			if g.intn("exprkey", 0, 3) == 0 && g.inInterp == 0 {
				// {(key expression): value}[key expression]
				k := g.leaf(TStr)
				return m.EIdx(&m.E{K: "hash", KS: []*m.E{{K: "group", A: []*m.E{k}}}, A: []*m.E{g.Expr(TInt, d-1)}}, k)
			}
			return m.EAttr(g.hashOperand(d), "k0")
		default:
			return m.EIdx(g.hashOperand(d), m.EStr("k0"))
		}
	case 10:
		if g.callsOK() {
			if g.flip("addid") {
				return m.ECall("add", g.Expr(TInt, d-1), g.Expr(TInt, d-1))
			}
			return m.ECall("id", g.Expr(TInt, d-1))
		}
	case 11:
		if g.callsOK() {
			return m.EFilter("fid", g.Expr(TInt, d-1))
		}
	}
	return g.leaf(TInt)
}

func (g *G) hashOperand(d int) *m.E {
	if g.flip("h2") {
		return g.Expr(THash2, 0)
	}
	return g.Expr(THash1, 0)
}

func (g *G) numExpr(d int) *m.E {
	switch g.intn("numk", 0, 6) {
	case 0:
		return g.leaf(TNum)
	case 1, 2:
		return g.intExpr(d)
	case 3:
		return m.EBin(pickS(g, "op", []string{"+", "-", "*"}), g.Expr(TNum, d-1), g.Expr(TNum, d-1))
	case 4:
		return m.EBin("/", g.Expr(TNum, d-1), m.ENum(float64(int(1)<<uint(g.intn("pow2", 0, 3)))))
	case 5:
		return m.ECond(g.Expr(TBool, d-1), g.Expr(TNum, d-1), g.Expr(TNum, d-1))
	case 6:
		return m.EUn("-", g.Expr(TNum, d-1))
	}
	return g.leaf(TNum)
}

func (g *G) strExpr(d int) *m.E {
	switch g.intn("strk", 0, 8) {
	case 0, 1:
		return g.leaf(TStr)
	case 2:
		return m.EBin("~", g.Expr(TStr, d-1), g.Expr(TStr, d-1))
	case 3:
		// interpolation: literal parts without quotes, '#{' or backslashes;
		// no double-quoted string inside an interpolation (region, see DESIGN.md)
		// (an interpolated string may stand inside an interpolation, once)
		if g.inInterp > 1 || (g.inInterp > 0 && !g.C.NestInterp) || g.C.NoInterp {
			return g.leaf(TStr)
		}
		g.inInterp++
		defer func() { g.inInterp-- }()
		e := &m.E{K: "interp"}
		n := g.intn("parts", 1, 3)
		for i := 0; i < n; i++ {
			e.A = append(e.A, m.EStr(pickS(g, "ilit", []string{"", "a", " b ", "x:", "é", "{", "}", "}}{{"})))
			e.A = append(e.A, g.Expr(pickS(g, "ity", []Ty{TStr, TInt}), d-1))
		}
		e.A = append(e.A, m.EStr(pickS(g, "ilit", []string{"", ".", "!", "}", "}}", " %}"})))
		return e
	case 4:
		return m.ECond(g.Expr(TBool, d-1), g.Expr(TStr, d-1), g.Expr(TStr, d-1))
	case 5:
		if g.callsOK() {
			if g.flip("wrapup") {
				args := []*m.E{}
				for i, n := 0, g.intn("wargs", 0, 2); i < n; i++ {
					args = append(args, g.Expr(pickS(g, "wty", []Ty{TStr, TInt}), d-1))
				}
				return m.EFilter("wrap", g.Expr(pickS(g, "wty", []Ty{TStr, TInt, TBool, TNull}), d-1), args...)
			}
			return m.EFilter("up", g.Expr(TStr, d-1))
		}
	case 6:
		if g.callsOK() {
			n := g.intn("catn", 0, 3)
			args := []*m.E{}
			for i := 0; i < n; i++ {
				args = append(args, g.Expr(pickS(g, "cty", []Ty{TStr, TInt, TNum, TBool, TNull, TArrInt, TArrStr, THash2}), d-1))
			}
			return m.ECall("cat", args...)
		}
	case 7:
		if g.callsOK() {
			return m.ECall("id", g.Expr(TStr, d-1))
		}
	case 8:
		if g.callsOK() && g.C.Probe {
			return m.ECall("probe", m.EStr(g.someName()))
		}
	}
	return g.leaf(TStr)
}

func (g *G) someName() string {
	names := []string{"i0", "s0", "b0", "z0", "nope", "x", "y", "v", "k"}
	for _, v := range g.vars {
		names = append(names, v.name)
	}
	return pickS(g, "pname", names)
}

func (g *G) boolExpr(d int) *m.E {
	switch g.intn("boolk", 0, 11) {
	case 0:
		return g.leaf(TBool)
	case 1:
		ty := pickS(g, "eqty", []Ty{TInt, TStr, TBool, TNull, TArrInt, TArrStr, THash1, TInt, TStr})
		if g.intn("eqkeys", 0, 7) == 0 {
			// hashes of one size over different keys, the odd key holding
			// something that coerces like a missing entry (null, '', false):
			// unequal all the same; also as needle and element of a list
			odd := []*m.E{m.ENull(), m.EStr(""), m.EBool(false), m.ENum(0)}[g.intn("eqodd", 0, 3)]
			l := &m.E{K: "hash", KS: []*m.E{g.hashKey("k0"), g.hashKey("k1")}, A: []*m.E{m.ENum(1), odd}}
			r := &m.E{K: "hash", KS: []*m.E{g.hashKey("k0"), g.hashKey("k2")}, A: []*m.E{m.ENum(1), m.ENum(float64(g.intn("hv", 0, 9)))}}
			if g.flip("eqone") {
				l = &m.E{K: "hash", KS: []*m.E{g.hashKey("k1")}, A: []*m.E{odd}}
				r = &m.E{K: "hash", KS: []*m.E{g.hashKey("k2")}, A: []*m.E{m.EStr("")}}
			}
			if g.flip("eqswap") {
				l, r = r, l
			}
			if g.flip("eqin") {
				return m.EBin(pickS(g, "in", []string{"in", "not in"}), l, m.EArr(r))
			}
			return m.EBin(pickS(g, "eq", []string{"==", "!="}), l, r)
		}
		return m.EBin(pickS(g, "eq", []string{"==", "!="}), g.Expr(ty, d-1), g.Expr(ty, d-1))
	case 2:
		if g.intn("cmpstr", 0, 3) == 0 {
			// two strings are ordered as strings
			return m.EBin(pickS(g, "cmp", []string{"<", "<=", ">", ">="}), g.Expr(TStr, d-1), g.Expr(TStr, d-1))
		}
		return m.EBin(pickS(g, "cmp", []string{"<", "<=", ">", ">="}), g.Expr(TNum, d-1), g.Expr(TNum, d-1))
	case 3:
		l := g.Expr(TBool, d-1)
		r := g.Expr(TBool, d-1)
		// the right operand may be something that must not be evaluated when
		// the left one decides: a recording callback, or an error
		switch g.intn("andorrhs", 0, 7) {
		case 0:
			if g.callsOK() {
				r = m.ECall("truth", r)
			}
		case 1:
			r = m.EBin("==", m.EBin("%", m.ENum(10), m.ENum(0)), m.ENum(0))
		}
		return m.EBin(pickS(g, "andor", []string{"and", "or"}), l, r)
	case 4:
		return m.EUn("not", g.truthyOperand(d-1))
	case 5:
		if g.flip("instr") {
			return m.EBin(pickS(g, "in", []string{"in", "not in"}), g.Expr(TStr, d-1), g.Expr(TArrStr, d-1))
		}
		if g.intn("inmixed", 0, 5) == 0 {
			// a plainly non-numeric word is not a member of a list of numbers
			// (stick compares as strings, Twig on PHP 8 says the same)
			hay := g.Expr(TArrInt, d-1)
			if g.flip("inrange0") {
				hay = &m.E{K: "group", A: []*m.E{m.EBin("..", m.ENum(0), m.ENum(float64(g.intn("inhi", 0, 4))))}}
			}
			return m.EBin(pickS(g, "in", []string{"in", "not in"}), m.EStr(pickS(g, "inword", []string{"a", "zero", "x", "abc"})), hay)
		}
		if g.intn("inshared", 0, 4) == 0 && g.hasVar("an0") {
			// a list looked for in a list that reaches one and the same list
			// object more than once: [an0, an0], [[an0, 1], [an0, 2]]. The
			// needle has an0's length and differs from it in at most one
			// element, so every comparison of the needle with that object has
			// to be made again for every element.
			needle := m.EArr()
			for _, v := range g.an0 {
				needle.A = append(needle.A, m.ENum(v))
			}
			if len(needle.A) > 0 && g.flip("inshdiff") {
				needle.A[g.intn("inshat", 0, len(needle.A)-1)] = m.ENum(float64(g.intn("inshv", 0, 9)))
			}
			hay := m.EArr(m.EName("an0"), m.EName("an0"))
			if g.flip("inshnest") {
				k := float64(g.intn("inshk", 1, 2))
				hay = m.EArr(m.EArr(m.EName("an0"), m.ENum(1)), m.EArr(m.EName("an0"), m.ENum(2)))
				needle = m.EArr(needle, m.ENum(k))
			}
			return m.EBin(pickS(g, "in", []string{"in", "not in"}), needle, hay)
		}
		return m.EBin(pickS(g, "in", []string{"in", "not in"}), g.Expr(TInt, d-1), g.Expr(TArrInt, d-1))
	case 6:
		return m.EBin(pickS(g, "sw", []string{"starts with", "ends with"}), g.Expr(TStr, d-1), g.Expr(TStr, d-1))
	case 7:
		// the pattern may be computed: a variable, a loop variable over an
		// array of patterns, or a conditional
		var pat *m.E
		switch g.intn("patk", 0, 3) {
		case 0:
			if vs := g.varsOf(TPat); len(vs) > 0 {
				pat = m.EName(pickS(g, "patvar", vs))
			}
		case 1:
			pat = m.ECond(g.leaf(TBool), m.EStr(pickS(g, "pat", patPool)), m.EStr(pickS(g, "pat", patPool)))
		}
		if pat == nil {
			pat = m.EStr(pickS(g, "pat", patPool))
		}
		return m.EBin("matches", g.Expr(TStr, d-1), pat)
	case 8:
		return m.ECond(g.Expr(TBool, d-1), g.Expr(TBool, d-1), g.Expr(TBool, d-1))
	case 9:
		if g.callsOK() {
			switch g.intn("test", 0, 3) {
			case 0:
				return m.ETest("odd", g.flip("neg"), g.Expr(TInt, d-1))
			case 1:
				return m.ETest("even", g.flip("neg"), g.Expr(TInt, d-1))
			case 2:
				return m.ETest("divisible by", g.flip("neg"), g.Expr(TInt, d-1), m.ENum(float64(g.intn("divby", 1, 5))))
			default:
				return m.ETest(pickS(g, "t1", []string{"nullish", "stringy"}), g.flip("neg"),
					g.Expr(pickS(g, "tty", []Ty{TStr, TNull, TInt}), d-1))
			}
		}
	case 10:
		if g.callsOK() {
			return m.ECall("truth", g.Expr(TBool, d-1))
		}
	case 11:
		// a boolean read from an array / loop metadata is added by the loop generator
	}
	return g.leaf(TBool)
}

// truthyOperand generates something whose truthiness is inside the region.
func (g *G) truthyOperand(d int) *m.E {
	switch g.intn("truthy", 0, 3) {
	case 0:
		return g.Expr(TBool, d)
	case 1:
		// non-negative number: leaf only (arithmetic may go negative)
		return g.leaf(TInt)
	case 2:
		return g.leaf(TStr)
	default:
		return g.leaf(TNull)
	}
}

func (g *G) arrExpr(ty Ty, d int) *m.E {
	el := TInt
	if ty == TArrStr {
		el = TStr
	}
	switch g.intn("arrk", 0, 4) {
	case 0:
		return g.leaf(ty)
	case 1:
		n := g.intn("alen", 0, 4)
		a := m.EArr()
		for i := 0; i < n; i++ {
			a.A = append(a.A, g.Expr(el, d-1))
		}
		return a
	case 2:
		if ty == TArrInt {
			lo := g.intn("rlo", 0, 5)
			hi := lo + g.intn("rlen", 0, 5)
			if g.intn("rdesc", 0, 3) == 0 {
				// a range counts down when its first end is the larger one
				// (numbers below zero are written with a unary minus and a
				// group: not here)
				lo, hi = hi, lo
			}
			return m.EBin("..", m.ENum(float64(lo)), m.ENum(float64(hi)))
		}
	case 3:
		if g.callsOK() {
			n := g.intn("alen", 0, 3)
			args := []*m.E{}
			for i := 0; i < n; i++ {
				args = append(args, g.Expr(el, d-1))
			}
			return m.ECall("arr", args...)
		}
	case 4:
		return m.ECond(g.Expr(TBool, d-1), g.Expr(ty, d-1), g.Expr(ty, d-1))
	}
	return g.leaf(ty)
}

// Printable generates an expression whose value can be printed.
func (g *G) Printable(d int) *m.E {
	return g.Expr(pickS(g, "pty", []Ty{TInt, TNum, TStr, TStr, TBool, TNull}), d)
}

// ---- text -----------------------------------------------------------------

var hostilePieces = []string{"a", "b", "Z", " ", "  ", "\n", "\r\n", "\t", "é", "日本", "{", "}", "%", "#", "}}", "%}", "#}",
	"'", "\"", "\\", "<b>", "&amp;", "-", "{ {", "{ %", "0", "|", "endif", "{", "\r", "#{", "\"\""}
var plainPieces = []string{"a", "b", "c", " ", "x", "-", ".", "T"}

// Text generates a literal chunk: any bytes not forming an opening delimiter
// and not ending in '{' (the next construct may start with '{').
func (g *G) Text() string {
	pieces := plainPieces
	if g.C.HostileText {
		pieces = hostilePieces
		// now and then a chunk larger than any plausible internal buffer
		if g.C.BigText && g.intn("bigtext", 0, 40) == 0 {
			unit := pickS(g, "bigunit", []string{"abcdefghij", "é日本 \n", "x}%#", "0123456789ABCDEF"})
			return strings.Repeat(unit, g.intn("bigrep", 3000, 9000))
		}
	}
	n := g.intn("tlen", 1, 6)
	var b strings.Builder
	for i := 0; i < n; i++ {
		p := pickS(g, "piece", pieces)
		cur := b.String()
		joined := cur + p
		if strings.Contains(joined, "{{") || strings.Contains(joined, "{%") || strings.Contains(joined, "{#") {
			continue
		}
		b.WriteString(p)
	}
	s := strings.TrimRight(b.String(), "{")
	if s == "" {
		s = "t"
	}
	return s
}

// ---- statements -----------------------------------------------------------

func (g *G) Body(nest int) []*m.N {
	n := g.intn("blen", 0, g.C.BodyLen)
	var out []*m.N
	for i := 0; i < n; i++ {
		out = append(out, g.Stmt(nest)...)
	}
	return out
}

func (g *G) push(name string, ty Ty) { g.vars = append(g.vars, vinfo{name, ty}) }
func (g *G) popTo(n int)             { g.vars = g.vars[:n] }

// Stmt generates one statement (sometimes preceded by a definition it needs).
func (g *G) Stmt(nest int) []*m.N {
	kinds := []string{"text", "text", "print", "print"}
	c := g.C
	if c.Comments {
		kinds = append(kinds, "comment")
	}
	if c.Verbatim {
		kinds = append(kinds, "verbatim")
	}
	if c.Do && g.callsOK() {
		kinds = append(kinds, "do")
	}
	if nest > 0 {
		if c.If {
			kinds = append(kinds, "if", "if")
		}
		if c.For {
			kinds = append(kinds, "for", "for")
		}
		if c.SetCap && g.inMacro == 0 {
			kinds = append(kinds, "setcap")
		}
		if c.FilterSec && g.C.Calls {
			kinds = append(kinds, "filter")
		}
		if c.Blocks && g.loops == 0 && g.inMacro == 0 {
			kinds = append(kinds, "block")
		}
	}
	if c.Set && g.inMacro == 0 {
		kinds = append(kinds, "set")
	}
	if c.Macros && len(g.macros) > 0 {
		kinds = append(kinds, "mprint")
	}
	if c.Blocks && len(g.blocks) > 0 && g.inMacro == 0 {
		kinds = append(kinds, "bprint")
	}
	if c.Wild {
		kinds = append(kinds, "wild", "wild")
	}
	switch pickS(g, "stmt", kinds) {
	case "text":
		return []*m.N{m.NText(g.Text())}
	case "print":
		return []*m.N{m.NPrint(g.Printable(g.C.ExprDepth))}
	case "comment":
		if g.intn("emptycomment", 0, 4) == 0 {
			// empty comments, with and without trim markers: {##} {#-#} {#--#}
			return []*m.N{{K: "comment", S: pickS(g, "ec", []string{"", "-", "--", " ", "-x-"})}}
		}
		body := strings.ReplaceAll(g.Text(), "#}", "# }")
		return []*m.N{{K: "comment", S: " " + body + " "}}
	case "verbatim":
		return []*m.N{{K: "verbatim", S: g.verbatimBody(), TrimI: g.intn("vbtrim", 0, 3) == 0}}
	case "do":
		return []*m.N{{K: "do", X: m.ECall("id", g.Printable(1))}}
	case "if":
		n := &m.N{K: "if", X: g.cond()}
		n.Body = g.Body(nest - 1)
		for i, k := 0, g.intn("elifs", 0, 2); i < k; i++ {
			n.Elifs = append(n.Elifs, &m.Elif{Cond: g.cond(), Body: g.Body(nest - 1)})
		}
		if g.flip("else") {
			n.HasElse = true
			n.Else = g.Body(nest - 1)
		}
		return []*m.N{n}
	case "for":
		return []*m.N{g.forStmt(nest)}
	case "set":
		return g.setStmt()
	case "setcap":
		name := g.freshOrExisting(TStr)
		n := &m.N{K: "setcap", S: name}
		g.markAssigned(name)
		if g.loops > 0 {
			g.noFeedback++
		}
		n.Body = g.Body(nest - 1)
		if g.loops > 0 {
			g.noFeedback--
		}
		g.declare(name, TStr)
		return []*m.N{n}
	case "filter":
		n := &m.N{K: "filter"}
		for i, k := 0, g.intn("nfilt", 1, 3); i < k; i++ {
			// flen returns a number, frepr shows the Go kind of what it is given:
			// a later filter receives what the earlier one returned
			n.Names = append(n.Names, pickS(g, "filt", []string{"up", "wrap", "fid", "up", "wrap", "fid", "flen", "frepr"}))
		}
		n.Body = g.Body(nest - 1)
		return []*m.N{n}
	case "block":
		g.nblock++
		name := fmt.Sprintf("blk%d", g.nblock)
		n := &m.N{K: "block", S: name}
		g.inBlock++
		n.Body = g.Body(nest - 1)
		g.inBlock--
		g.blocks = append(g.blocks, name)
		return []*m.N{n}
	case "bprint":
		return []*m.N{m.NPrint(&m.E{K: "blockfn", A: []*m.E{m.EStr(pickS(g, "bname", g.blocks))}})}
	case "mprint":
		return []*m.N{m.NPrint(g.macroCall())}
	case "wild":
		return g.wildStmt()
	}
	return nil
}

func (g *G) cond() *m.E {
	if g.intn("condk", 0, 3) == 0 {
		return g.truthyOperand(1)
	}
	return g.Expr(TBool, g.C.ExprDepth)
}

func (g *G) verbatimBody() string {
	parts := []string{"{{ x }}", "{{x}}", "{% if a %}", "{%endif%}", "{# c #}", "plain", " ", "{", "}}", "\n", "{{ 'q' }}", "{{ 1 + 2 }}", "{% for i in x %}",
		"{{ $ctrl.x }}", "{{#each}}", "{% it's %}", "{{{ x }}", "{{ \"", "{# open", "#{", "{%-", "-%}"}
	n := g.intn("vlen", 0, 4)
	var b strings.Builder
	for i := 0; i < n; i++ {
		b.WriteString(pickS(g, "vpart", parts))
	}
	s := strings.TrimRight(b.String(), "{")
	return s
}

// freshOrExisting picks a variable name for an assignment: an existing
// variable of the same type (update) or a fresh name. Names that are loop
// variables or macro parameters in scope are never chosen (the statement does
// not cover assignments to shadowed names).
func (g *G) freshOrExisting(ty Ty) string {
	var cands []string
	last := map[string]int{}
	for i, v := range g.vars {
		last[v.name] = i
	}
	count := map[string]int{}
	for _, v := range g.vars {
		count[v.name]++
	}
	for name, i := range last {
		v := g.vars[i]
		if (v.ty == ty || g.C.Collide) && count[name] == 1 && !g.isLocal(name) && !strings.HasPrefix(name, "lv") && !strings.HasPrefix(name, "lk") && !strings.HasPrefix(name, "p") && name != "loop" {
			cands = append(cands, name)
		}
	}
	if len(cands) > 0 && g.flip("reuse") {
		// deterministic order
		sortStrings(cands)
		return pickS(g, "setname", cands)
	}
	g.textSeq++
	name := fmt.Sprintf("v%d", g.intn("fresh", 0, 3))
	if g.isLocal(name) {
		// a loop variable or macro parameter of that name is in scope: the
		// statement does not cover assignments to it
		return fmt.Sprintf("w%d", g.intn("fresh2", 0, 3))
	}
	return name
}

// isLocal reports whether name is currently a loop variable (or key).
func (g *G) isLocal(name string) bool {
	for _, l := range g.locals {
		if l == name {
			return true
		}
	}
	return false
}

func sortStrings(xs []string) {
	for i := 1; i < len(xs); i++ {
		for j := i; j > 0 && xs[j] < xs[j-1]; j-- {
			xs[j], xs[j-1] = xs[j-1], xs[j]
		}
	}
}

// markAssigned records that name is the target of some assignment. All
// assignable names are marked up front (see Program) so that the rule also
// covers assignments generated later.
func (g *G) markAssigned(name string) {
	if g.assigned == nil {
		g.assigned = map[string]bool{}
	}
	g.assigned[name] = true
}

// declare records that name now holds a value of type ty. If the name exists
// with another type it is re-typed (a template-level set may change types);
// inside loops new names are scoped by popTo.
func (g *G) declare(name string, ty Ty) {
	for i := len(g.vars) - 1; i >= 0; i-- {
		if g.vars[i].name == name {
			g.vars[i].ty = ty
			return
		}
	}
	g.push(name, ty)
}

func (g *G) setStmt() []*m.N {
	ty := pickS(g, "setty", []Ty{TInt, TStr, TBool, TInt})
	name := g.freshOrExisting(ty)
	// a fresh name v0..v3 may collide with an existing variable of another
	// type: then it is an update that changes the type, which is fine at any
	// level as long as the name is bound exactly once.
	g.markAssigned(name)
	if g.loops > 0 || g.inMacro > 0 {
		g.noFeedback++
	}
	n := &m.N{K: "set", S: name, X: g.Expr(ty, g.C.ExprDepth-1)}
	if g.loops > 0 || g.inMacro > 0 {
		g.noFeedback--
	}
	cnt := 0
	for _, v := range g.vars {
		if v.name == name {
			cnt++
		}
	}
	if cnt > 1 {
		return []*m.N{m.NText("~")}
	}
	g.declare(name, ty)
	return []*m.N{n}
}

func (g *G) forStmt(nest int) *m.N {
	n := &m.N{K: "for"}
	depth := g.loops
	n.S = fmt.Sprintf("lv%d", depth)
	collide := g.C.Collide && g.intn("collide", 0, 2) > 0
	if collide {
		n.S = pickS(g, "lvname", collidePool)
	}
	var elTy, keyTy Ty = TInt, TInt
	switch k := g.intn("seqk", 0, 9); {
	case k <= 3:
		n.X = g.Expr(TArrInt, 2)
	case k <= 5:
		n.X = g.Expr(TArrStr, 2)
		elTy = TStr
	case k == 6:
		n.X = g.Expr(THash1, 0)
		keyTy = TStr
	case k == 7 && g.flip("patseq"):
		a := m.EArr()
		for i, c := 0, g.intn("npat", 2, 4); i < c; i++ {
			a.A = append(a.A, m.EStr(pickS(g, "pat", patPool)))
		}
		n.X = a
		elTy = TPat
	case k == 7 && g.flip("nullseq"):
		n.X = g.Expr(TNull, 0)
	case k == 7:
		// null elements: a null local still hides an outer variable
		a := m.EArr()
		for i, c := 0, g.intn("nnull", 1, 2); i < c; i++ {
			a.A = append(a.A, &m.E{K: "null"})
		}
		n.X = a
		elTy = TNull
	case k == 8 && g.C.NonIterable:
		n.X = g.Expr(pickS(g, "nonit", []Ty{TInt, TStr, TBool}), 0)
	default:
		n.X = g.Expr(TArrInt, 1)
	}
	if g.flip("withkey") {
		n.T = fmt.Sprintf("lk%d", depth)
		if g.C.Collide && g.intn("collidek", 0, 2) > 0 {
			n.T = pickS(g, "lkname", collidePool)
			if n.T == n.S {
				n.T = fmt.Sprintf("lk%d", depth)
			}
		}
	}
	mark := len(g.vars)
	lmark := len(g.locals)
	if n.T != "" {
		g.push(n.T, keyTy)
		g.locals = append(g.locals, n.T)
	}
	g.push(n.S, elTy)
	g.locals = append(g.locals, n.S)
	if g.C.ForIf && g.intn("forif", 0, 3) == 0 {
		n.Y = g.Expr(TBool, 2)
		g.inForIf++
	}
	g.loops++
	n.Body = g.Body(nest - 1)
	if g.callsOK() && !g.C.Wild && g.intn("observe", 0, 3) > 0 {
		obs := []*m.E{m.EName(n.S)}
		if n.T != "" {
			obs = append(obs, m.EName(n.T))
		}
		n.Body = append(n.Body, m.NPrint(m.ECall("cat", obs...)))
		if collide && g.C.Probe {
			n.Body = append(n.Body, m.NPrint(m.ECall("probe", m.EStr(n.S))))
		}
		if g.C.LoopMeta && n.Y == nil && g.inForIf == 0 && g.intn("lidx", 0, 2) == 0 {
			// a user filter reading the loop metadata from the scope
			n.Body = append(n.Body, m.NPrint(m.EFilter("lidx", m.EName(n.S))))
		}
	}
	if elTy == TPat && g.callsOK() && !g.C.Wild {
		// the same matches expression evaluated with a different pattern in
		// every iteration
		n.Body = append(n.Body, m.NPrint(m.ECall("cat", m.EBin("matches", pickS(g, "patsubj", []*m.E{m.EStr("abc"), m.EStr("b"), m.EName("s0"), m.EStr("xay")}), m.EName(n.S)))))
	}
	if g.C.LoopMeta && n.Y == nil && g.inForIf == 0 {
		n.Body = append(n.Body, g.loopMeta(depth)...)
	}
	if g.C.LoopMeta && n.Y == nil && g.inForIf == 0 && g.callsOK() && !g.C.Wild && g.intn("purebody", 0, 9) == 0 {
		// a body that mentions neither `loop` nor any function: the only
		// observer of the loop metadata is a user filter reading the scope
		n.Body = []*m.N{m.NText("("), m.NPrint(m.EFilter("lidx", m.EName(n.S))), m.NText(")")}
	}
	g.loops--
	if n.Y != nil {
		g.inForIf--
	}
	g.popTo(mark)
	g.locals = g.locals[:lmark]
	if g.flip("forelse") {
		n.HasElse = true
		n.Else = g.Body(nest - 1)
	}
	return n
}

func (g *G) loopMeta(depth int) []*m.N {
	fields := []string{"index", "index0", "revindex", "revindex0", "length", "first", "last"}
	var out []*m.N
	for i, k := 0, g.intn("nmeta", 0, 4); i < k; i++ {
		f := pickS(g, "meta", fields)
		var e *m.E = m.EAttr(m.EName("loop"), f)
		if depth > 0 && g.flip("parentmeta") {
			e = m.EAttr(m.EAttr(m.EName("loop"), "parent"), f)
		}
		if f == "first" || f == "last" {
			if g.flip("metaif") {
				out = append(out, &m.N{K: "if", X: e, Body: []*m.N{m.NText(f[:1])}})
				continue
			}
		}
		out = append(out, m.NPrint(e), m.NText(","))
	}
	return out
}

// ---- macros (same template, _self) -----------------------------------------

// MacroDef generates a macro whose body reads only its parameters.
func (g *G) MacroDef(idx int) *m.N {
	np := g.intn("nparams", 0, 4)
	n := &m.N{K: "macro", S: fmt.Sprintf("m%d", idx)}
	saved := g.vars
	g.vars = nil
	for i := 0; i < np; i++ {
		p := fmt.Sprintf("p%d", i)
		if g.C.Collide && i < len(collidePool) && g.flip("pcollide") {
			p = collidePool[i]
		}
		n.Names = append(n.Names, p)
	}
	g.inMacro++
	savedLoops, savedBlocks := g.loops, g.blocks
	g.loops, g.blocks = 0, nil
	var body []*m.N
	for i, k := 0, g.intn("mblen", 1, 4); i < k; i++ {
		switch g.intn("mstmt", 0, 3) {
		case 0:
			body = append(body, m.NText(g.Text()))
		case 1:
			if np > 0 {
				// parameters are of unknown type: print them through cat/wrap
				p := m.EName(n.Names[g.intn("pi", 0, np-1)])
				if g.C.Calls && g.flip("pwrap") {
					body = append(body, m.NPrint(m.ECall("cat", p)))
				} else {
					body = append(body, m.NPrint(p))
				}
			} else {
				body = append(body, m.NPrint(g.Printable(1)))
			}
		case 2:
			if len(g.macros) > 0 {
				body = append(body, m.NPrint(g.macroCall()))
			} else {
				body = append(body, m.NText("m"))
			}
		default:
			if g.C.Calls {
				body = append(body, m.NPrint(m.ECall("who")))
			} else {
				body = append(body, m.NText("w"))
			}
		}
	}
	n.Body = body
	g.inMacro--
	g.loops, g.blocks = savedLoops, savedBlocks
	g.vars = saved
	g.macros = append(g.macros, macroInfo{n.S, np})
	return n
}

// recMacro generates a macro that iterates and calls itself from inside the
// loop body, down to a bounded depth, and reads the loop's variables, its own
// parameters and what it captured after the nested call has returned: the
// same for, set and filter nodes are active several times at once.
func (g *G) recMacro() (*m.N, []*m.N) {
	d, tag := m.EName("d"), m.EName("tag")
	width := g.intn("recw", 1, 3)
	rec := &m.E{K: "mcall", S: "rec", T: "self", A: []*m.E{m.EBin("-", d, m.ENum(1)), m.EBin("~", tag, m.EName("i"))}}
	deeper := &m.N{K: "if", X: m.EBin(">", d, m.ENum(0)), Body: []*m.N{m.NPrint(rec)}}
	var inner []*m.N
	switch g.intn("recwhere", 0, 3) {
	case 0:
		inner = []*m.N{deeper}
	case 1:
		inner = []*m.N{{K: "setcap", S: "cap", Body: []*m.N{m.NText("<"), m.NPrint(d), deeper, m.NText(">")}}, m.NPrint(m.EName("cap"))}
	case 2:
		inner = []*m.N{{K: "filter", Names: []string{pickS(g, "recfilt", []string{"wrap", "up", "fid"})}, Body: []*m.N{m.NText("f"), m.NPrint(m.EName("i")), deeper, m.NPrint(tag)}}}
	default:
		inner = []*m.N{{K: "set", S: "cap", X: m.EBin("~", m.EStr("s"), m.ECond(m.EBin(">", d, m.ENum(0)), rec, m.EStr("")))}, m.NPrint(m.EName("cap"))}
	}
	body := []*m.N{m.NText("["), m.NPrint(m.EName("i")), m.NPrint(tag)}
	body = append(body, inner...)
	// after the nested call: the loop variable, the metadata and the parameters
	after := []*m.N{m.NText("|"), m.NPrint(m.EName("i")), m.NText("/"), m.NPrint(m.EAttr(m.EName("loop"), "index")), m.NText("/"), m.NPrint(m.EAttr(m.EName("loop"), "length")),
		m.NPrint(m.ECond(m.EAttr(m.EName("loop"), "last"), m.EStr("L"), m.EStr(","))), m.NPrint(tag), m.NPrint(d), m.NText("]")}
	body = append(body, after...)
	loop := &m.N{K: "for", S: "i", X: m.EBin("..", m.ENum(1), m.ENum(float64(width))), Body: body}
	if g.flip("reckv") {
		// a key/value loop over a hash literal with one entry per level
		loop = &m.N{K: "for", T: "k", S: "i", X: &m.E{K: "hash", KS: []*m.E{m.EName("x")}, A: []*m.E{d}}, Body: append([]*m.N{m.NPrint(m.EName("k"))}, append(body, m.NPrint(m.EName("k")))...)}
	}
	def := &m.N{K: "macro", S: "rec", Names: []string{"d", "tag"}, Body: []*m.N{loop, m.NText(";")}}
	depth := 2
	if width == 3 {
		depth = 1
	}
	call := m.NPrint(&m.E{K: "mcall", S: "rec", T: "self", A: []*m.E{m.ENum(float64(g.intn("recd", 1, depth))), m.EStr("r")}})
	if g.flip("recinloop") {
		return def, []*m.N{{K: "for", S: "o", X: m.EBin("..", m.ENum(1), m.ENum(2)), Body: []*m.N{call, m.NPrint(m.EName("o"))}}}
	}
	return def, []*m.N{call}
}

func (g *G) macroCall() *m.E {
	mi := pickS(g, "macro", g.macros)
	na := g.intn("nargs", 0, 6)
	e := &m.E{K: "mcall", S: mi.name, T: "self"}
	for i := 0; i < na; i++ {
		e.A = append(e.A, g.Expr(pickS(g, "aty", []Ty{TInt, TStr, TBool, TNull}), 1))
	}
	return e
}

// Program generates a single-template program.
func (g *G) Program() *m.Program {
	ctx, vi := StdCtx(g)
	g.vars = vi
	t := &m.Tpl{Name: "main"}
	if g.C.Macros {
		for i, k := 0, g.intn("nmacros", 0, 3); i < k; i++ {
			t.Body = append(t.Body, g.MacroDef(i))
		}
	}
	n := g.intn("toplen", 1, g.C.BodyLen+2)
	for i := 0; i < n; i++ {
		t.Body = append(t.Body, g.Stmt(g.C.Nest)...)
	}
	if g.C.RecMacro && g.intn("recmacro", 0, 2) == 0 {
		def, call := g.recMacro()
		t.Body = append([]*m.N{def}, t.Body...)
		at := 1 + g.intn("recat", 0, len(t.Body)-1)
		t.Body = append(t.Body[:at:at], append(call, t.Body[at:]...)...)
	}
	// the very last literal chunk may end in a lone brace (nothing follows it)
	if g.C.HostileText && g.intn("tailbrace", 0, 3) == 0 {
		t.Body = append(t.Body, m.NText(pickS(g, "tail", []string{"{", "x{", " { {", "}{", "%{"})))
	}
	return &m.Program{Env: "core", Loader: "memory", Tpls: []*m.Tpl{t}, Entry: "main", Ctx: ctx}
}
