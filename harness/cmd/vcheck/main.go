// vcheck is the driver of the verification machinery.
//
//	vcheck <ID> --tier quick|thorough      run a property check (shards itself over the cores)
//	vcheck <ID> --replay <file>            re-execute one saved case
//	vcheck --worker                        sandbox worker (internal)
//	vcheck <ID> --shard i/n --out <file>   one shard (internal)
//
// Exit codes: 0 held on everything explored; 1 violation; 2 infrastructure / inconclusive.
package main

import (
	"encoding/json"
	"flag"
	"fmt"
	"os"
	"os/exec"
	"path/filepath"
	"runtime"
	"sort"
	"strconv"
	"strings"
	"sync"
	"testing"
	"time"

	"verif/internal/ev"
	"verif/internal/findings"
	"verif/internal/props"
	"verif/internal/worker"
)

func main() {
	args := os.Args[1:]
	if len(args) > 0 && args[0] == "--worker" {
		worker.Main()
		return
	}
	testing.Init()
	flag.CommandLine.Parse([]string{})

	var id, tier, replay, shardSpec, out string
	shards := 0
	tier = os.Getenv("VERIF_TIER")
	for i := 0; i < len(args); i++ {
		a := args[i]
		next := func() string {
			i++
			if i >= len(args) {
				fatal("missing value for " + a)
			}
			return args[i]
		}
		switch a {
		case "--tier":
			tier = next()
		case "--replay":
			replay = next()
		case "--shard":
			shardSpec = next()
		case "--out":
			out = next()
		case "--shards":
			shards, _ = strconv.Atoi(next())
		case "--list":
			fmt.Println(strings.Join(props.IDs(), "\n"))
			return
		default:
			if strings.HasPrefix(a, "-") {
				fatal("unknown flag " + a)
			}
			id = a
		}
	}
	if tier == "" {
		tier = "quick"
	}
	if r := os.Getenv("VERIF_ROOT"); r != "" {
		props.Root = r
	}
	p := props.Get(id)
	if p == nil {
		fatal("unknown property " + id + "; known: " + strings.Join(props.IDs(), " "))
	}
	known, err := findings.Load(filepath.Join(props.Root, "KNOWN_FINDINGS.txt"))
	if err != nil {
		fatal("KNOWN_FINDINGS.txt: " + err.Error())
	}
	seed := uint64(1)
	if s := os.Getenv("VERIF_SEED"); s != "" {
		if v, err := strconv.ParseInt(s, 10, 64); err == nil {
			seed = uint64(v)
		} else if v, err := strconv.ParseUint(s, 10, 64); err == nil {
			seed = v
		}
	}

	switch {
	case replay != "":
		doReplay(p, replay, known)
	case shardSpec != "":
		doShard(p, tier, seed, shardSpec, out, known)
	default:
		doRun(p, tier, seed, shards, known)
	}
}

func fatal(msg string) {
	fmt.Fprintln(os.Stderr, "vcheck:", msg)
	os.Exit(2)
}

func doReplay(p *props.Property, path string, known *findings.Set) {
	f, err := props.Replay(p, path, known)
	if err != nil {
		fatal("replay: " + err.Error())
	}
	if f == nil {
		fmt.Printf("replay %s: case passes\n", path)
		os.Exit(0)
	}
	if f.Sig == "infra" {
		fatal("replay: infrastructure failure: " + f.Observed)
	}
	if k := known.Match(p.ID, f.Sig); k != nil {
		fmt.Printf("KNOWN-FINDING: property=%s %s [%s]\n", p.ID, k.What, k.ID)
		os.Exit(0)
	}
	fmt.Printf("signature: %s\nexpected: %s\nobserved: %s\n", f.Sig, f.Expected, f.Observed)
	fmt.Printf("VIOLATION property=%s replay=%s\n", p.ID, path)
	os.Exit(1)
}

func budgetFor(tier string) time.Duration {
	if s := os.Getenv("VERIF_BUDGET_S"); s != "" {
		if v, err := strconv.Atoi(s); err == nil {
			return time.Duration(v) * time.Second
		}
	}
	if tier == "thorough" {
		return 40 * time.Minute
	}
	return 150 * time.Second
}

func doShard(p *props.Property, tier string, seed uint64, spec, out string, known *findings.Set) {
	parts := strings.SplitN(spec, "/", 2)
	i, _ := strconv.Atoi(parts[0])
	n, _ := strconv.Atoi(parts[1])
	rep := props.RunShard(p, tier, seed, i, n, known, budgetFor(tier))
	b, err := json.Marshal(rep)
	if err != nil {
		fatal("shard report cannot be encoded: " + err.Error())
	}
	if err := os.WriteFile(out, b, 0o644); err != nil {
		fatal(err.Error())
	}
}

func doRun(p *props.Property, tier string, seed uint64, shards int, known *findings.Set) {
	start := time.Now()
	if shards <= 0 {
		shards = runtime.NumCPU()
		if shards > 16 {
			shards = 16
		}
		if s := os.Getenv("VERIF_SHARDS"); s != "" {
			if v, err := strconv.Atoi(s); err == nil && v > 0 {
				shards = v
			}
		}
	}
	if p.MaxShards > 0 && shards > p.MaxShards {
		shards = p.MaxShards
	}
	work := filepath.Join(props.Root, "work", fmt.Sprintf("run-%s-%d", p.ID, os.Getpid()))
	os.MkdirAll(work, 0o755)
	defer os.RemoveAll(work)
	exe, _ := os.Executable()
	reports := make([]*ev.Shard, shards)
	errs := make([]string, shards)
	var wg sync.WaitGroup
	for i := 0; i < shards; i++ {
		wg.Add(1)
		go func(i int) {
			defer wg.Done()
			out := filepath.Join(work, fmt.Sprintf("shard-%d.json", i))
			cmd := exec.Command(exe, p.ID, "--tier", tier, "--shard", fmt.Sprintf("%d/%d", i, shards), "--out", out)
			cmd.Env = append(os.Environ(), "VERIF_WORK="+work, "VERIF_SEED="+strconv.FormatUint(seed, 10))
			cmd.Stderr = os.Stderr
			if err := cmd.Run(); err != nil {
				errs[i] = fmt.Sprintf("shard %d: %v", i, err)
				return
			}
			b, err := os.ReadFile(out)
			if err != nil {
				errs[i] = fmt.Sprintf("shard %d: %v", i, err)
				return
			}
			var s ev.Shard
			if err := json.Unmarshal(b, &s); err != nil {
				errs[i] = fmt.Sprintf("shard %d: %v", i, err)
				return
			}
			reports[i] = &s
		}(i)
	}
	wg.Wait()
	m := ev.Merge(reports)
	for _, e := range errs {
		if e != "" {
			m.Infra = append(m.Infra, e)
		}
	}

	// Violations: deduplicate by signature, write replay files.
	seen := map[string]bool{}
	var lines []string
	nviol := 0
	for i := range m.Violations {
		v := &m.Violations[i]
		key := v.Sub + "|" + v.Sig
		if seen[key] {
			continue
		}
		seen[key] = true
		nviol++
		path := v.Replay
		if path == "" {
			path = props.WriteReplay(v)
		}
		fmt.Printf("violation: sub=%s signature=%s\n  expected: %s\n  observed: %s\n  case: %s\n", v.Sub, v.Sig,
			clip(v.Expected, 600), clip(v.Observed, 1200), clip(string(v.Case), 1500))
		lines = append(lines, fmt.Sprintf("VIOLATION property=%s replay=%s", p.ID, path))
	}
	kl := map[string]bool{}
	for _, l := range m.KnownLines {
		if !kl[l] {
			kl[l] = true
			fmt.Println(l)
		}
	}
	for _, n := range m.Notes {
		fmt.Println("note:", n)
	}

	cov := map[string]interface{}{
		"evaluations":         m.Evaluations,
		"distinct_nontrivial": len(m.NonTrivial),
		"rule":                p.Rule,
		"samples":             m.Samples,
		"labels":              sortedLabels(m.Labels),
		"suppressed_known":    m.Known,
		"excluded_known":      m.Excluded,
		"discarded_by_model":  m.Discarded,
		"regressions_replayed": m.Regress,
		"shards":              shards,
		"worker_spawns":       m.Spawns,
		"hang_flakes":         m.Flakes,
		"incomplete":          m.Incomplete,
	}
	if len(m.Exhaustive) > 0 {
		all := true
		for _, v := range m.Exhaustive {
			all = all && v
		}
		cov["exhaustive_parts"] = m.Exhaustive
		cov["exhaustive"] = all && !m.Incomplete && len(m.Infra) == 0
	}
	if len(m.Infra) > 0 {
		cov["infra_errors"] = m.Infra
	}
	if cov["samples"] == nil || len(m.Samples) == 0 {
		cov["samples"] = []interface{}{"(no samples collected)"}
	}
	e := &ev.Evidence{
		PropertyID: p.ID, Tier: tier, Seed: int64(seed), Level: p.Level, Coverage: cov,
		Assumptions: p.Assumptions, WallS: time.Since(start).Seconds(), Violations: nviol,
	}
	// (VERIF_EVIDENCE_DIR: runs against a seeded change, tools/tryseed.py, keep
	// their evidence apart from that of the tree)
	evDir := filepath.Join(props.Root, "evidence")
	if d := os.Getenv("VERIF_EVIDENCE_DIR"); d != "" && os.Getenv("VERIF_STICK_DIR") != "" {
		evDir = d
	}
	os.MkdirAll(evDir, 0o755)
	if err := ev.Write(filepath.Join(evDir, p.ID+".json"), e); err != nil {
		fatal(err.Error())
	}
	fmt.Printf("%s %s seed=%d: evaluations=%d distinct_nontrivial=%d violations=%d known_suppressed=%v wall=%.1fs\n",
		p.ID, tier, seed, m.Evaluations, len(m.NonTrivial), nviol, m.Known, time.Since(start).Seconds())
	for _, l := range lines {
		fmt.Println(l)
	}
	// (os.Exit does not run the deferred removal of the scratch directory)
	if nviol > 0 {
		os.RemoveAll(work)
		os.Exit(1)
	}
	if len(m.Infra) > 0 {
		for _, s := range m.Infra {
			fmt.Fprintln(os.Stderr, "infra:", clip(s, 1000))
		}
		os.RemoveAll(work)
		os.Exit(2)
	}
	if m.Incomplete {
		fmt.Fprintln(os.Stderr, "inconclusive: time budget exhausted before the case count was reached")
		os.RemoveAll(work)
		os.Exit(2)
	}
}

func sortedLabels(m map[string]int64) map[string]int64 {
	// encoding/json sorts map keys; this only drops empties.
	out := map[string]int64{}
	keys := make([]string, 0, len(m))
	for k := range m {
		keys = append(keys, k)
	}
	sort.Strings(keys)
	for _, k := range keys {
		out[k] = m[k]
	}
	return out
}

func clip(s string, n int) string {
	if len(s) > n {
		return s[:n] + "…"
	}
	return s
}
