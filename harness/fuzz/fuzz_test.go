// Package fuzz holds the native coverage-guided fuzz targets of the thorough
// tier. They run stick in-process (the Go fuzzer isolates each worker in its
// own process and saves the input when a worker dies), arm their own watchdog,
// and carry the semantic oracle inside the target. A failing input is only a
// candidate: the driver re-checks it through the sandbox before reporting.
package fuzz

import (
	"encoding/json"
	"fmt"
	"os"
	"path/filepath"
	"testing"
	"time"

	"github.com/tyler-sommer/stick"
	"github.com/tyler-sommer/stick/parse"
	"github.com/tyler-sommer/stick/twig"
	"github.com/tyler-sommer/stick/twig/escape"
	"pgregory.net/rapid"

	"verif/internal/gen"
	"verif/internal/props"
	"verif/internal/sb"
	"verif/internal/worker"
)

func watchdog(what string, f func()) {
	done := make(chan struct{})
	go func() {
		defer close(done)
		f()
	}()
	select {
	case <-done:
	case <-time.After(8 * time.Second):
		panic("verif: hang in " + what)
	}
}

func FuzzParse(f *testing.F) {
	for _, s := range gen.Corpus {
		f.Add([]byte(s))
	}
	for _, s := range []string{"{%", "{{-", "-}}", "#{", "..", "b-and", "is not", "\r", "\xff", "{#-#}", "{{ 1", "{% verbatim %}{{ \""} {
		f.Add([]byte(s))
	}
	f.Fuzz(func(t *testing.T, data []byte) {
		src := string(data)
		watchdog("parse.Parse", func() {
			tree, err := parse.Parse(src)
			if err == nil && (tree == nil || tree.Root() == nil) {
				panic("verif: neither tree nor error")
			}
			if err == nil {
				_ = tree.Root().String()
			}
		})
		watchdog("twig Env.Parse", func() { twig.New(nil).Parse(src) })
		watchdog("core Env.Execute", func() {
			// executing whatever parses must not panic either (C02)
			stick.New(nil).Execute(src, discard{}, map[string]stick.Value{"a": 1, "b": "x", "c": []int{1, 2}})
		})
	})
}

type discard struct{}

func (discard) Write(p []byte) (int, error) { return len(p), nil }

func FuzzEscape(f *testing.F) {
	for _, s := range []string{"", "a", "<b>&\"'", "\\0020bad", " 0", "😀0", "\x00", "\xff\xfe", "é", "a b/c=d", "%20&#39;"} {
		f.Add([]byte(s))
	}
	escs := map[string]func(string) string{"html": escape.HTML, "html_attr": escape.HTMLAttribute, "js": escape.JS, "css": escape.CSS, "url": escape.URLQueryParam}
	f.Fuzz(func(t *testing.T, data []byte) {
		in := string(data)
		for name, fn := range escs {
			out := fn(in)
			if sig, msg := props.C13Judge(name, in, out); sig != "" && sig != "roundtrip:css:rewritten-char-followed-by-hexdigit" {
				t.Fatalf("%s: %s", sig, msg)
			}
		}
	})
}

// FuzzExecWild lets coverage guide the *grammar*: the fuzzer mutates rapid's
// bit stream, from which an ill-typed multi-template program is generated.
func FuzzExecWild(f *testing.F) {
	cfg := gen.Cfg{ExprDepth: 3, BodyLen: 3, Nest: 3, Calls: true, Comments: true, Verbatim: true, If: true, For: true, LoopMeta: true, ForIf: true,
		Set: true, SetCap: true, FilterSec: true, Macros: true, Blocks: true, Do: true, NonIterable: true, Wild: true}
	dir := os.Getenv("VERIF_FUZZ_CASES")
	f.Fuzz(rapid.MakeFuzz(func(t *rapid.T) {
		g := &gen.G{T: t, C: cfg}
		env := rapid.SampledFrom([]string{"core", "twig"}).Draw(t, "env")
		if env == "twig" {
			g.C.WildFilters = append(append([]string(nil), gen.TwigFilters...), "wrap", "up")
		}
		prog, _ := g.WildProgram(env)
		req := &sb.Req{Op: "exec", Env: env, Loader: "memory", Templates: prog.Sources(), Entry: prog.Entry, Ctx: gen.WildCtx()}
		save := func(why string) {
			if dir != "" {
				b, _ := json.Marshal(map[string]interface{}{"p": prog})
				os.WriteFile(filepath.Join(dir, fmt.Sprintf("wild-%d-%d.json", os.Getpid(), time.Now().UnixNano())), b, 0o644)
			}
		}
		defer func() {
			if p := recover(); p != nil {
				save(fmt.Sprint(p))
				panic(p)
			}
		}()
		done := make(chan *sb.Resp, 1)
		go func() {
			defer func() {
				if p := recover(); p != nil {
					done <- &sb.Resp{Status: "panic", PanicMsg: fmt.Sprint(p)}
				}
			}()
			done <- worker.Exec(req)
		}()
		select {
		case r := <-done:
			if r.Status == "panic" {
				save(r.PanicMsg)
				t.Fatalf("panic: %s", r.PanicMsg)
			}
		case <-time.After(8 * time.Second):
			save("hang")
			t.Fatalf("hang")
		}
	}))
}
